"""Per-property configuration of the driver: which binaries run in which build
configuration with how many worker processes, the non-trivial rule and the
assumptions that go into the evidence file."""

CFG_DEFS = {
    # ASan + UBSan, -O1, hooks on
    "default": {"defines": []},
    "noinfo": {"defines": ["-DUSE_DEVICE_DEPENDENT_ERROR_INFORMATION=0"]},
    # NB the macro name is inverted: USE_MEMORY_ALLOCATION_FREE=1 means malloc/free
    "heap": {"defines": ["-DUSE_MEMORY_ALLOCATION_FREE=0"]},
    "dtostre": {"defines": ["-DUSE_CUSTOM_DTOSTRE=1"]},
    # the library compiled in strict ISO C90 mode (only the library: "libflags"): cc.h then finds neither snprintf nor strndup, so the
    # double/float formatting goes through SCPI_dtostre without USE_CUSTOM_DTOSTRE and texts are duplicated by OUR_strndup
    "ansi": {"defines": ["-DVF_LIB_USES_DTOSTRE=1"], "libflags": ["-ansi"]},
    # plain char unsigned, as on ARM, AArch64 and PowerPC ABIs
    "uchar": {"defines": ["-funsigned-char"]},
    # the documented extension point for application error codes (USE_USER_ERROR_LIST): descriptions with quotes, one of them
    # longer than the 255-character response limit with a quote where the cut falls
    "usererr": {"defines": ["-DUSE_USER_ERROR_LIST=1",
                            '-DLIST_OF_USER_ERRORS=X(SCPI_ERROR_USER_OPTION,102,"Option \\"X\\" is not installed") '
                            'X(SCPI_ERROR_USER_LONG,103,"The option that this command needs (abcdefghijabcdefghijabcdefghijabcdefghijabcdefghijabcdefghijabcdefghijabcdefghijabcdefghijabcdefghijabcdefghijabcdefghijabcdefghijabcdefghijabcdefghijabcdefghijabcdefghijabcdefghijabcdefghijabcdefghijabcdefghij) is \\"missing\\" here") X(SCPI_ERROR_USER_QUOTE,104,"\\"")']},
    # unsanitised -O2 build for the 2^32 sweeps (value-equality oracles only)
    "fast": {"defines": [], "fast": True},
    # libFuzzer builds
    "fz-default": {"defines": [], "fuzz": True},
    "fz-noinfo": {"defines": ["-DUSE_DEVICE_DEPENDENT_ERROR_INFORMATION=0"], "fuzz": True},
    "fz-heap": {"defines": ["-DUSE_MEMORY_ALLOCATION_FREE=0"], "fuzz": True},
    "fz-dtostre": {"defines": ["-DUSE_CUSTOM_DTOSTRE=1"], "fuzz": True},
}

COMMON_ASSUME = [
    "x86-64 little-endian glibc host; HAVE_* all 1; clang 14 -O1 with ASan+UBSan (no -DNDEBUG)",
    "exploration only: absence of violations is shown for the generated cases, not proved",
]


def simple(bin_, cfgs=("default",), quick_workers=16, thorough_workers=16, args=None):
    def runs(tier):
        n = quick_workers if tier == "quick" else thorough_workers
        per = max(1, n // len(cfgs))
        return [{"cfg": c, "bin": bin_, "workers": per, "args": list(args or [])} for c in cfgs]
    return runs


def c14_runs(tier):
    if tier == "quick":
        return [{"cfg": "default", "bin": "c14", "workers": 16}]
    # the complete 2^32 sweep runs on the unsanitised build, everything else under ASan/UBSan
    return [{"cfg": "fast", "bin": "c14", "workers": 16, "args": ["--only", "sweep32"]},
            {"cfg": "default", "bin": "c14", "workers": 16}]


HOOK_COMMITS = ["37e3690"]

ENGINES = [
    {"name": "rapidcheck choice-sequence properties", "path": "harness/common.cpp",
     "serves_properties": [], "kind_free_text": "rapidcheck generates and shrinks a sequence of 32-bit choices; a deterministic decoder per "
     "property turns it into the structured case; the shrunk sequence is the replay file"},
    {"name": "exhaustive small-space enumeration", "path": "harness/",
     "serves_properties": [], "kind_free_text": "complete enumeration of the finite sub-spaces a property names, partitioned over 16 processes, same oracles"},
]

NOT_APPLICABLE = {}

def c07_runs(tier):
    if tier == "quick":
        return [{"cfg": "default", "bin": "c07", "workers": 16}]
    return [{"cfg": "fast", "bin": "c07", "workers": 16, "args": ["--only", "sweep32"]},
            {"cfg": "default", "bin": "c07", "workers": 16}]


def c01_runs(tier):
    cfgs = ["default", "noinfo", "heap", "dtostre"]
    # the rapidcheck-driven twin of the structure-aware target: deterministic from VERIF_SEED
    out = [{"cfg": c, "bin": "c01", "workers": 4} for c in cfgs]
    if tier == "quick":
        for c in cfgs:
            out.append({"kind": "fuzz", "cfg": "fz-" + c, "bin": "fuzz_stream", "workers": 2, "runs": 150000, "max_len": 600, "corpus": "corpus/stream", "empty_worker": True, "max_time": 120})
            out.append({"kind": "fuzz", "cfg": "fz-" + c, "bin": "fuzz_struct", "workers": 2, "runs": 60000, "max_len": 600, "corpus": "corpus/struct", "empty_worker": True, "max_time": 120})
    else:
        for c in cfgs:
            out.append({"kind": "fuzz", "cfg": "fz-" + c, "bin": "fuzz_stream", "workers": 2, "runs": 2000000, "max_len": 4096, "corpus": "corpus/stream", "empty_worker": True, "max_time": 420})
            out.append({"kind": "fuzz", "cfg": "fz-" + c, "bin": "fuzz_struct", "workers": 2, "runs": 1000000, "max_len": 2048, "corpus": "corpus/struct", "empty_worker": True, "max_time": 420})
    return out


PROPS = {
    "C01": {
        "engine": "libFuzzer + rapidcheck",
        "technique": "coverage-guided fuzzing (libFuzzer, ASan+UBSan+LSan, manual poisoning of the input-buffer tail) of a raw byte-stream target and a structure-aware target, with semantic invariants (buffer cursor, queue indices, canaries) inside the targets; "
                     "the structure-aware decoder is also driven by rapidcheck-generated choice sequences (deterministic from the seed, shrinkable)",
        "level": "two libFuzzer targets in each of the four build configurations: byte streams over 0x00-0xFF in chunks of 0..7 bytes with "
                 "zero-length flush calls and chunks that overrun the buffer, input buffers of 2..300 bytes, queues of 1..4, info heaps of "
                 "1..64 bytes, optionally followed by a direct SCPI_Parse of the NUL-terminated line; and grammar-decoded messages (headers "
                 "from the table, typed and malformed parameters, mutations). Handlers apply every SCPI_Param*/Expr*/Result* API with tight "
                 "caller buffers; the same grammar decoder driven by rapidcheck (c01) in the four configurations, a quarter of its cases also handed to SCPI_Parse directly. "
                 "Oracle: any sanitizer report, structural invariants after every call, libFuzzer's 25 s hang detector / the 20 s CPU-time watchdog A quarter of the structure-aware cases run next to a second instrument in the same process (other table positions, shorter table, other units; fed the same chunks before/after, poked from handlers and write callbacks), an eighth on an interface without the optional callbacks. A third of the cases use long or NULL identification strings; shipped commands are appended to a fifth of the generated streams.",
        "level_note": "libFuzzer campaigns are only approximately reproducible from a seed: the saved artifact is the reproducible unit; uninitialised reads are only visible where they change behaviour (no MSan)",
        "design_ref": "DESIGN.md section 4, C01",
        "runs": c01_runs,
        "rule": "evaluations = executions reported by libFuzzer + rapidcheck cases; distinct_nontrivial = coverage-distinct units of the final corpora that reach >= 1 handler invocation or >= 1 queued error (counted by a classification pass of the target) + rapidcheck-generated streams, distinct by hash, that do",
        "assumptions": COMMON_ASSUME + ["input buffer length >= 2, queue size >= 1, chunk length >= 0"],
    },
    "C13": {
        "engine": "exhaustive enumeration + rapidcheck",
        "technique": "reference-model comparison: independent recognisers of the 488.2 token syntax against every scpiLex_*/scpiParser_* function on all short strings over per-recogniser class alphabets, plus rapidcheck-generated long tokens",
        "level": "all strings up to length 6 (quick) / 7 (thorough) - shorter where the alphabet is large, see bounds - over one representative "
                 "of every character class each of the 13 token recognisers distinguishes, for parseProgramData over a merged alphabet and "
                 "for unit detection (well-formedness, length, data extent, parameter count, termination); each string in exact-size buffers "
                 "at two offsets and in a buffer followed by tempting continuation bytes; tokens pre-filled with garbage; every byte value 0..255 at every "
                 "position of every string up to length 3 (quick) / 4 (thorough) over the same alphabets; definite-length blocks with announced lengths "
                 "up to 262144 (complete, one byte short, followed by another parameter); long generated tokens Second configuration: plain char unsigned (-funsigned-char).",
        "level_note": "suffix program data is checked one-sidedly against the strict 488.2 syntax (the source documents a relaxed one); an incomplete block at the end of input swallows the rest (documented) and is accepted as such",
        "design_ref": "DESIGN.md section 4, C13",
        "runs": simple("c13", cfgs=("default", "uchar")),
        "rule": "evaluations = recogniser calls (x3 buffer variants); strings distinct by construction; non-trivial = the reference accepts a non-empty proper prefix or rejects a string of >= 2 characters (longest-match and rollback cases)",
        "assumptions": COMMON_ASSUME + ["no mnemonic-length limit is asserted"],
    },
    "C09": {
        "engine": "rapidcheck",
        "technique": "differential / metamorphic testing: message B after generated messages A1..Ak on one context against B on a fresh context, whole observable trace compared",
        "level": "random command tables whose handlers read every parameter type, emit every result type, fail, raise own errors, leave "
                 "streamed blocks unfinished or send block data without a header; A = 1..4 generated messages (well-formed and mutated, "
                 "failing midway, with unread parameters, deep compound headers, or ending incomplete and flushed); B = a generated "
                 "terminated message; handler invocations, parameters, output bytes, flushes, error callbacks and the return value of B compared An eighth of the cases run next to a second instrument in the same process. A tenth of the table entries have no callback.",
        "level_note": "B never reads status registers or the error queue and the queue (128) never overflows, so the only legitimate carry-over is excluded by construction",
        "design_ref": "DESIGN.md section 4, C09",
        "runs": simple("c09", cfgs=("default", "heap")),
        "rule": "case = (table, A..., B), distinct by hash; non-trivial = A raised an error, ran a compound-header command, emitted output or left a "
                "block unfinished, and B contains a query or more than one unit",
        "assumptions": COMMON_ASSUME + ["each message is delivered in one SCPI_Input call"],
    },
    "C08": {
        "engine": "rapidcheck",
        "technique": "differential / metamorphic testing: the same rapidcheck-generated byte stream under many segmentations (all single split points, random multi-way splits, all-at-once) against the byte-at-a-time run; full observable trace compared",
        "level": "random command tables with diverse scripted handlers x streams of 1..8 messages (well-formed and byte-mutated; blocks with "
                 "embedded CR/LF/;, strings, empty units, all three terminators, interior zero-length flush calls, possibly ending in an "
                 "incomplete message) x every single split point + 8 random chunkings + all-at-once, in a large buffer and in a buffer that "
                 "is exactly sufficient (only chunkings the pending-byte profile of the reference run admits) An eighth of the streams run next to a second instrument that is fed every chunk and a lone CR. A sixth of the streams follow an overrun (the same two calls in every run); a tenth of the table entries have no callback.",
        "level_note": "return values of SCPI_Input are not compared (the statement does not mention them; C05 covers them per call); while finding "
                      "C08-F1 is listed, CR/LF inside any quoted span that is closed later is replaced by a blank before the stream is used",
        "design_ref": "DESIGN.md section 4, C08",
        "runs": simple("c08", cfgs=("default", "heap")),
        "rule": "evaluations = chunked runs of a stream; cases distinct by hash of (table, stream); non-trivial = the stream has >= 2 terminator "
                "bytes or a block/string, and a split strictly inside a segment was exercised",
        "assumptions": COMMON_ASSUME + ["streams respect the precondition: pending unterminated data never exceeds the input buffer"],
    },
    "C05": {
        "engine": "rapidcheck",
        "technique": "reference-model comparison: reference evaluation of (handler signature, parameter list) with a reader x data-type compatibility table, compared event by event (handler entry, delivered values, error callbacks) with the real parser",
        "level": "random handler signatures of 0..4 readers of every kind (mandatory/optional, arrays of 1..4, text buffers of 0..30 bytes) that "
                 "succeed, fail silently or raise their own error, against parameter lists of 0..5 items of every data type (compatible, "
                 "missing, surplus, wrong type, suffixed, unknown suffix, unknown mnemonic) with random 488.2 white space around the commas, "
                 "malformed fragments and trailing commas, in 1..3-unit messages with exact-fit and roomy input buffers, on an empty queue of 64 entries "
                 "or (a fifth of the cases) a queue of 1..3 entries that is already full when the message arrives, one case in forty a list of 250..400 items; return value of SCPI_Input for calls "
                 "carrying several messages, incomplete tails and overruns A quarter of the cases run next to a second instrument in the same process.",
        "level_note": "delivered values are compared exactly except where the documentation leaves them open (real number to an integer/bool reader, negative to an unsigned reader); a suffixed number given to Bool/Choice accepts -104 or -138; a non-decimal number is never given to a Bool reader (left open)",
        "design_ref": "DESIGN.md section 4, C05",
        "runs": simple("c05", cfgs=("default", "noinfo", "heap")),
        "rule": "case = (signatures, message), distinct by hash; non-trivial = a unit with >= 2 parameters, or >= 1 expected error, or malformed data",
        "assumptions": COMMON_ASSUME + ["handler policy of the fixture: readers in order, a failing reader ends the handler with SCPI_RES_ERR unless optional and absent"],
    },
    "C06": {
        "engine": "rapidcheck",
        "technique": "reference-model comparison: independent renderer of every result type and of the response framing, byte-exact against captured write()/flush() calls, over rapidcheck-generated handler scripts and messages",
        "level": "random tables of query handlers emitting 0..4 items of every result type (one array item in 25 with 250..600 elements) that succeed, fail silently or raise their own error "
                 "before/between/after items, command handlers, undefined headers and ill-typed parameters, in messages of 1..6 units, "
                 "optionally after a previous message on the same context; output bytes, flush count and write/flush order compared A quarter of the cases run next to a second instrument, a fifth on an interface without flush/control/reset callbacks.",
        "level_note": "two readings of 'responds' are accepted (a successful query that emits nothing is or is not an empty response unit); "
                      "bytes written by a handler that later fails form a unit under both; command handlers never emit",
        "design_ref": "DESIGN.md section 4, C06",
        "runs": simple("c06", cfgs=("default", "dtostre")),
        "rule": "case = (handler scripts, one or two messages), distinct by hash; non-trivial = a message of >= 2 units with >= 1 emitting query and >= 1 unit that fails or emits nothing",
        "assumptions": COMMON_ASSUME + ["the independent item renderer uses printf %g / %.15g for floats (C16 checks those separately)"],
    },
    "C02": {
        "engine": "rapidcheck",
        "technique": "reference-model comparison over rapidcheck-generated (command table, message) pairs: effective headers computed from the written text, first-match lookup with the independent matcher of C03, compared with the handler/error trace of the real parser",
        "level": "random tree-shaped command tables of 3..10 patterns (shared prefixes, optional and numeric keywords, common commands, "
                 "overlapping and duplicate patterns) x well-formed messages of 1..6 units whose headers are spellings of entries written "
                 "absolutely, with leading colon or relative to the preceding unit, undefined headers and common commands, with optional leading white space and 0..2 parameters A fifth of the table entries fail after reading their parameters; a quarter of the cases run next to a second instrument in the same process (see C01).",
        "level_note": "all four build configurations; the -113 text is only required to contain the header as written; numeric suffixes are compared when the reference matching is unique",
        "design_ref": "DESIGN.md section 4, C02",
        "runs": simple("c02", cfgs=("default", "noinfo", "heap", "dtostre")),
        "rule": "case = (table, message), distinct by hash; non-trivial = message of >= 2 units in which at least one unit's effective header differs from its written header",
        "assumptions": COMMON_ASSUME + ["messages are well formed; empty and ill-formed units belong to C08/C09/C01"],
    },
    "C04": {
        "engine": "rapidcheck + enumeration",
        "technique": "grammar-based generation of 488.2 numeric literals with a structural oracle (expected value computed from the generator's own structure: correctly rounded strtod/strtof of the canonical text, exact integers, golden unit table)",
        "level": "random decimal literals (1..25 digits, every sign/point/exponent/white-space placement, exponents up to +-400), literals constructed at the "
                 "rounding boundaries of the target type (exact float/double midpoints, as written or moved off the tie up to 14 digits further on), mantissas of up to 200 digits, "
                 "a quarter of the literals decoded after an out-of-range literal on the same context, in-range "
                 "integer literals for the four integer widths, #H/#Q/#B literals up to the type width, literals with every suffix of the "
                 "golden unit table in random case with 0..2 blanks, all special mnemonics and near misses, delivered as 'CMD <literal>' to "
                 "Int32/UInt32/Int64/UInt64/Float/Double/Number readers; values compared as bit patterns; plus the full unit table x case patterns A fifth of the suffixed literals use a user-supplied unit table with mixed-case names; a quarter of the cases run next to a second instrument with another unit table.",
        "level_note": "trusts glibc strtod/strtof for correct rounding of the canonical (white-space free) text; integer readers are only given "
                      "in-range integer literals; non-decimal literals wider than the target type are not generated",
        "design_ref": "DESIGN.md section 4, C04",
        "runs": simple("c04"),
        "rule": "case = (reader, literal text); random cases distinct by hash, table cases by construction; non-trivial = the literal has an "
                "exponent, a fraction, an explicit sign, inner white space, a suffix, a non-decimal radix, more than 15 digits, or is a special mnemonic",
        "assumptions": COMMON_ASSUME + ["golden unit table = the table at the pinned commit (harness/units_golden.hpp)"],
    },
    "C03": {
        "engine": "exhaustive enumeration + rapidcheck",
        "technique": "reference-model comparison: independent backtracking matcher for the pattern language against matchCommand/SCPI_Match and SCPI_IsCmd/SCPI_CommandNumbers on a live context",
        "level": "all 984 patterns of 1..3 distinct keywords (mandatory/optional, plain/numeric, with/without ?) against all headers of 1..3 "
                 "(quick) / 1..4 (thorough) mnemonics over 18 forms x leading colon x ?, plus random patterns of up to 4 keywords over a "
                 "12-name pool and the 61 shipped patterns against spellings and near misses (random case) through the live parser, written in full and "
                 "as the last keyword of a second unit of a compound message (relative form) A quarter of the live cases run next to a second instrument that is sent the same header with other suffix digits from inside the handler.",
        "level_note": "headers are lexically valid mnemonics with at most 9 suffix digits; ambiguous (pattern, header) pairs (more than one "
                      "reference matching) are skipped and counted; acceptance and numbers[] (sentinel pre-filled, canary after the end) are compared",
        "design_ref": "DESIGN.md section 4, C03",
        "runs": simple("c03"),
        "rule": "case = (pattern, header); enumerated pairs distinct by construction, random by hash; non-trivial = the pattern has >= 1 optional "
                "or numeric keyword and the header is accepted (enumeration) / accepted or a one-step near miss of an accepted spelling (random)",
        "assumptions": COMMON_ASSUME + ["patterns unambiguous; headers non-empty and lexically valid"],
    },
    "C19": {
        "engine": "exhaustive enumeration + rapidcheck",
        "technique": "reference-model comparison: independent prefix reader of the numeric/channel list syntax over all short expression bodies, generator-structure oracle for rapidcheck grammar-generated and mutated lists",
        "level": "all expression bodies up to 6 (quick) / 7 (thorough) characters over {1 2 - . : , ! @ space x} queried at entries 0..4 with "
                 "capacities 0..4, plus grammar-generated lists of up to 8 entries / 5 dimensions and mutations of them queried at entries 0..9 "
                 "with capacities 0..5 (exact-size value arrays under ASan), plus two lists as parameters of one command read in fixed and generated interleavings Pairs of lists parsed one after the other at the same buffer address on one context and read in five walks each (ascending, descending, direct, mixed), also generated.",
        "level_note": "for ill-formed numeric lists only 'not OK' is asserted (the statement does not choose between NO_MORE and ERROR); "
                      "channel lists are compared three-valued; integer values are compared when the written token is an integer literal",
        "design_ref": "DESIGN.md section 4, C19",
        "runs": simple("c19"),
        "rule": "evaluations = entry queries; enumerated bodies distinct by construction, generated lists by hash; non-trivial = a body with >= 2 "
                "entries reported OK or an OK entry with a range / >= 2 dimensions (enumeration); generated list with >= 2 entries containing a range or >= 2 dimensions",
        "assumptions": COMMON_ASSUME + ["lists reach the expression API through SCPI_Parameter on the maintainers' lex_state shortcut"],
    },
    "C17": {
        "engine": "enumeration + rapidcheck",
        "technique": "reference-model comparison: independent definite-length block encoder (shift-based byte order) and an accounting model for streamed blocks, over an enumerated grid and rapidcheck-generated result sequences",
        "level": "all ten element types x lengths 0..300 x NORMAL/SWAPPED, blocks 0..300 bytes, header-only calls for every power of ten up to "
                 "10^8 and 999999999, every split of a streamed block of <= 12 bytes into <= 4 data calls with an over-length attempt at "
                 "every point and items before/after, blocks left at every fill level by one unit of a compound message and continued without a header by the next unit(s), "
                 "plus random sequences of arrays, blocks, streamed blocks and scalars over 1..3 units of one message; byte-identical output, exactly one -310 per refused data call A quarter of the cases run next to a second instrument that answers the same query from inside this one's write callback. Array sources are handed over in read-only pages followed by an inaccessible page; arrays up to 33000 elements.",
        "level_note": "only a little-endian host can be executed; the response terminator is not asserted here (C06); a block header is always followed by at least one data call; "
                      "left open: an empty data call where no block was announced, and the separator before an item that follows an incomplete block in a later unit",
        "design_ref": "DESIGN.md section 4, C17",
        "runs": simple("c17"),
        "rule": "case = sequence of result calls of one query handler, or of the handlers of the 2..3 units of one compound message; grid cases distinct by construction, random by hash; non-trivial = a "
                "block/array of >= 10 bytes (multi-digit header), a streamed block, or an over-length attempt",
        "assumptions": COMMON_ASSUME + ["little-endian host only"],
    },
    "C20": {
        "engine": "exhaustive sequence enumeration + rapidcheck stateful histories",
        "technique": "model-based stateful testing in the static-heap build: reference queue whose entries carry 'the pushed text or nothing', unique texts per history, exact-size heap under ASan, full-reuse probe after every history",
        "level": "all operation sequences over pushes with texts of every length 0..heap size, text-less pushes, SYST:ERR?, pop+release and clear "
                 "for heap sizes 2..12 and queue capacities 1..4 up to a per-heap length bound (listed in the evidence), plus random histories "
                 "of up to 1000 operations on heaps of 2..256 bytes; texts are pushed NUL-terminated, from exact-size unterminated buffers with an explicit length, and with an explicit length shorter than what follows A fifth of the random heaps are 257..700 bytes with explicit-length texts of up to 600 characters; after draining, a text filling the whole heap must be stored.",
        "level_note": "only the USE_MEMORY_ALLOCATION_FREE=0 configuration is built; popped texts are released by the harness with scpiheap_free(..., false) as SCPI_SystemErrorNextQ does; texts are at most 255 characters",
        "design_ref": "DESIGN.md section 4, C20",
        "runs": simple("c20", cfgs=("heap",)),
        "rule": "case = (queue capacity, heap size, operation sequence); enumerated cases distinct by construction, random by hash; non-trivial = "
                "a text was pushed where it has to wrap around the end of the heap and some text was read back, or a push with text hit a full queue (write-cursor rollback)",
        "assumptions": COMMON_ASSUME + ["texts <= 255 characters, unique within a history"],
    },
    "C10": {
        "engine": "exhaustive sequence enumeration + rapidcheck stateful histories with fault injection",
        "technique": "model-based stateful testing: reference bounded deque compared after every operation; allocation failures injected through link-time wrapping of strndup; ownership tracked through wrapped strndup/free plus ASan",
        "level": "every operation sequence up to length 6 (quick) / 8 (thorough) over a 7-letter alphabet x capacities 1..4 x failure of every "
                 "single text duplication, plus random histories of up to 300 and up to 10^4 operations with arbitrary 7-bit texts of 0..300 "
                 "characters, plus one scheduled history of 70 k (quick) / 400 k (thorough) pushes per capacity in {1..7, 12, 16, 17}, "
                 "in the malloc build and the build without device-dependent information A quarter of the random cases have an application backlog that the error callback re-queues when the queue runs empty. A fifth of the random cases run with a write callback that queues an error while a response is written.",
        "level_note": "texts popped through SCPI_ErrorPop are released by the harness exactly as SCPI_SystemErrorNextQ does; leak detection = "
                      "every pointer returned by the wrapped strndup must reach the wrapped free by the end of the case (LeakSanitizer at exit as a backstop)",
        "design_ref": "DESIGN.md section 4, C10",
        "runs": simple("c10", cfgs=("default", "noinfo")),
        "link": {"c10": ["-Wl,--wrap=strndup,--wrap=free"]},
        "rule": "case = (capacity, fault position, operation sequence); enumerated cases distinct by construction, random ones by hash; "
                "non-trivial = the history contains an overflow followed by a pop/clear/query, or more pushes than the capacity "
                "interleaved with pops (ring indices wrap)",
        "assumptions": COMMON_ASSUME + ["explicit text lengths never exceed strlen(text)"],
    },
    "C11": {
        "engine": "explicit-state exploration + rapidcheck walks",
        "technique": "invariant over generated histories: explicit-state closure with context snapshots, exhaustive bounded operation sequences and rapidcheck random walks, status-byte equations checked after every operation",
        "level": "the five summary equations are evaluated after every operation on (a) the complete reachable state space of each register "
                 "group (thorough: each pair of groups) over 3 representative bits per register x 8 SRE values x queue fill, (b) every "
                 "operation sequence up to length 3 (quick) / 4 (thorough) from the initial state, (c) random walks of up to 200 operations "
                 "over full 16-bit values A third of the random walks use a service-request callback that returns an error or re-enters the library (reads and clears ESR, disarms SRE, pushes an error).",
        "level_note": "operations are public API calls and command lines of the shipped IEEE 488.2 / STATus handlers; the status byte is never written directly; no device-dependent texts (snapshots are memcpy copies)",
        "design_ref": "DESIGN.md section 4, C11",
        "runs": simple("c11"),
        "rule": "evaluations = operations executed; closure states are distinct by construction (visited set), sequences distinct by construction, "
                "walks by hash; non-trivial = state with >= 1 summary bit set and >= 1 non-zero enable register (closure), additionally reached "
                "by a history in which an enable register was written after its event register changed (sequences, walks)",
        "assumptions": COMMON_ASSUME + ["histories never write the status byte directly"],
    },
    "C12": {
        "engine": "exhaustive enumeration + explicit-state exploration + rapidcheck walks",
        "technique": "reference classification table over all 65536 codes; latch/persistence/service-request rules checked on every transition of the C11 exploration (closure, bounded sequences, rapidcheck walks)",
        "level": "all 65536 error codes against the class table; condition->event latching, persistence of event bits except under the defined "
                 "clears, and the service-request callback (value = status byte with MSS, called on every MSS rise - of the MSS bit as shown and of MSS as defined by the registers) on every transition of "
                 "the state-space closure, all operation sequences up to length 3/4 and random walks A third of the random walks use a service-request callback that returns SCPI_RES_ERR.",
        "level_note": "extra callbacks while MSS stays 1 are allowed; the -350 substituted on overflow is not checked for a class bit",
        "design_ref": "DESIGN.md section 4, C12",
        "runs": simple("c12"),
        "rule": "evaluations = codes pushed + operations executed; non-trivial = code at a class boundary (+-1 around each hundred, extremes) or "
                "state/history with a summary bit and an enable set; for sequences and walks a history in which MSS rises at least twice",
        "assumptions": COMMON_ASSUME + ["histories never write the status byte directly"],
    },
    "C18": {
        "engine": "enumeration + rapidcheck",
        "technique": "reference-model comparison (independent longest-fitting-prefix encoder and 488.2 string reader) over an enumerated grid of codes, text lengths and quote positions plus rapidcheck-generated texts",
        "level": "SYST:ERR? output for every code of the error list, a strided (quick) or complete (thorough) sweep of all 65536 codes, text "
                 "lengths 0..400 with quotes at and around the 255-character boundary, explicit and automatic info lengths, in the malloc "
                 "build and the static-heap build (texts placed so that they wrap around the end of the heap) Third configuration: an application error list (USE_USER_ERROR_LIST) whose descriptions contain quotes and exceed the limit. Fourth configuration: the library compiled as C90 (texts duplicated by OUR_strndup).",
        "level_note": "descriptions are taken from the library's own LIST_OF_ERRORS macro (the property is about framing, not wording); for an "
                      "empty device-dependent text both 'desc' and 'desc;' are accepted",
        "design_ref": "DESIGN.md section 4, C18",
        "runs": simple("c18", cfgs=("default", "heap", "usererr", "ansi")),
        "rule": "case = (code, text, info length, heap placement); grid cases distinct by construction, random by hash; non-trivial = "
                "description;text longer than 200 characters or text containing a double quote",
        "assumptions": COMMON_ASSUME + ["explicit info lengths never exceed strlen(text); texts are NUL-terminated C strings"],
    },
    "C15": {
        "engine": "enumeration + rapidcheck",
        "technique": "exact-size heap buffers under ASan + canaries over an enumerated (value x every length) grid and rapidcheck-generated values; oracle: bounded write, NUL placement, returned length, prefix of the full text",
        "level": "every printable unit, special tag, a set of doubles, dtostre precisions/flags, quoted texts with doubled quotes at every "
                 "position and integer extremes crossed with every buffer length 0..40 (thorough 0..70), plus random values and lengths, "
                 "in the printf and the USE_CUSTOM_DTOSTRE build Buffer lengths up to 65536 around the 8/16-bit marks; SCPI_ParamCopyText also with copy_len == NULL.",
        "level_note": "memory errors are observed through ASan red zones of exact-size allocations (length 0 = one-past-end pointer); the full "
                      "text used for the prefix check comes from the same function with a 160-byte buffer",
        "design_ref": "DESIGN.md section 4, C15",
        "runs": simple("c15", cfgs=("default", "dtostre")),
        "rule": "case = (function, value, buffer length); grid cases are distinct by construction, random ones by hash; non-trivial = full "
                "text length >= buffer length - 1 (tight or truncated)",
        "assumptions": COMMON_ASSUME + ["SCPI_dtostre precision 1..15; ParamCopyText fed through the maintainers' lex_state shortcut"],
    },
    "C16": {
        "engine": "rapidcheck + enumeration",
        "technique": "differential against libstdc++ std::to_chars (Ryu) for the printf build; exact decimal distance oracle (__int128) for the built-in formatter at every precision",
        "level": "random doubles/floats over the whole exponent range, rounding-boundary and zero-digit values, every k*10^e, NaN/inf, in the "
                 "printf build (text identical to an independent %g implementation) and the USE_CUSTOM_DTOSTRE build (within one unit of "
                 "the last requested digit for precisions 1..15, %g shape) A third of the random cases convert v, -v, v, -|v|, +|v| back to back. Third configuration: the library compiled as C90 (-ansi: no snprintf, so the built-in formatter is used without USE_CUSTOM_DTOSTRE).",
        "level_note": "trusts libstdc++'s std::to_chars (general and scientific formats) as the independent reference for correctly rounded digits",
        "design_ref": "DESIGN.md section 4, C16",
        "runs": simple("c16", cfgs=("default", "dtostre", "ansi"), quick_workers=18, thorough_workers=18),
        "rule": "case = (value, float/double, precision, flags, API: *ToStr / Result* / SCPI_dtostre, build configuration); distinct by hash; "
                "non-trivial = the value is not exactly representable in the requested digits (rounding needed) or its rounded digits contain a zero",
        "assumptions": COMMON_ASSUME + ["std::to_chars(double, general|scientific, precision) is correctly rounded"],
    },
    "C07": {
        "engine": "enumeration + rapidcheck",
        "technique": "round-trip property (format with SCPI_Result*, feed the bytes back through SCPI_Input, read with SCPI_Param*) over enumerated and rapidcheck-generated values",
        "level": "round trip through the real message path for all 8/16-bit values in 4 bases, a stratified (quick) or complete (thorough, "
                 "decimal) 2^32 sweep, all strings <= 4/6 characters over an alphabet with both quotes and separators, blocks of every "
                 "length 0..1100, and random 64-bit integers, floats, doubles, long texts, blocks and ASCII arrays",
        "level_note": "the response data is sent back in one SCPI_Input call on a context with a large enough buffer; float tolerance is one "
                      "unit of the 6th/15th significant digit computed in long double; text is read into a buffer of decoded length + 1",
        "design_ref": "DESIGN.md section 4, C07",
        "runs": c07_runs,
        "rule": "case = (result type, base, value, reader); enumerations are distinct by construction, random cases de-duplicated by hash; "
                "non-trivial = negative or multi-digit integer, text containing a quote/separator/CR/LF or >= 10 characters, block >= 10 bytes "
                "(two-digit header), array >= 2 elements, every float/double",
        "assumptions": COMMON_ASSUME + ["response sent back in a single SCPI_Input call; SCPI_ParamCopyText buffer = decoded length + 1"],
    },
    "C14": {
        "engine": "enumeration + rapidcheck",
        "technique": "exhaustive/stratified enumeration and rapidcheck-generated values against an independent reference formatter",
        "level": "every 32-bit value x signed/unsigned x bases 2/8/10/16 (thorough: complete; quick: stratified 2^24), boundary 32/64-bit "
                 "values x 12 bases x every buffer length 0..70 in exact-size heap buffers under ASan, every value with one to three non-zero digits and "
                 "every run of the largest digit in bases 10/16/8/2, and random 64-bit values (uniform, near powers, sparse decimals), all compared "
                 "byte for byte (text, return value, NUL placement) with an independent formatter Buffer lengths 71..70000 around the 8/16-bit marks for boundary values and in the random cases.",
        "level_note": "trusts the reference formatter in harness/c14.cpp, ASan red zones and canaries; 64-bit space is sampled, not enumerated",
        "design_ref": "DESIGN.md section 4, C14",
        "runs": c14_runs,
        "rule": "cases = (value, bits 32/64, base, signed?, API variant, buffer length); enumerated sweeps are distinct by "
                "construction, random cases are de-duplicated by hash; non-trivial = the canonical text is negative, has "
                ">= 2 digits, or does not fit the buffer (truncated)",
        "assumptions": COMMON_ASSUME + ["reference formatter is independent (LSD-first division)"],
    },
}
