# setup: build every check binary from files on disk (offline). The checks rebuild
# themselves from the current tree anyway; this only warms the build cache.
.PHONY: setup clean
setup:
	./check --build-all
clean:
	rm -rf build
