"""libFuzzer campaigns for the driver (C01).  Each worker gets a fresh corpus
directory (seeded from the committed corpus unless it is the empty-corpus
worker), a fixed -seed derived from VERIF_SEED and a -runs bound; the fuzzer's
own statistics give the execution count, a classification pass of the target
over the final corpus gives the number of coverage-distinct non-trivial inputs.
Only crash-/leak- artifacts are candidate violations (timeout- only after the
driver's 60 s confirmation replays; slow-unit/oom never)."""
import os, re, shutil, subprocess, glob, hashlib
from concurrent.futures import ThreadPoolExecutor

HERE = os.path.dirname(os.path.abspath(__file__))


def run(pid, tier, seed, runs, exes, wdir, rdir, env, ncpu):
    jobs = []
    idx = 0
    for r in runs:
        exe = exes[(r["cfg"], r["bin"])]
        for w in range(r.get("workers", 1)):
            cdir = os.path.join(wdir, "corpus-%d" % idx)
            os.makedirs(cdir, exist_ok=True)
            seeded = r.get("corpus") and not (r.get("empty_worker") and w == r.get("workers", 1) - 1)
            if seeded:
                for f in glob.glob(os.path.join(HERE, r["corpus"], "*")):
                    shutil.copy(f, cdir)
            s = int.from_bytes(hashlib.sha256(("fz%d/%d" % (seed, idx)).encode()).digest()[:4], "big") or 1
            prefix = os.path.join(rdir, "%s-%s-%s-w%d-" % (pid, r["cfg"], r["bin"], idx))
            for old in glob.glob(prefix + "*"):      # artifacts of earlier runs (possibly against another tree) are not this run's findings
                os.remove(old)
            cmd = [exe, "-runs=%d" % r["runs"], "-seed=%d" % s, "-max_len=%d" % r.get("max_len", 512), "-timeout=25", "-rss_limit_mb=2048",
                   "-artifact_prefix=" + prefix, "-print_final_stats=1", "-len_control=0", "-detect_leaks=1", "-max_total_time=%d" % r.get("max_time", 600), cdir]
            if os.path.exists(os.path.join(HERE, "corpus", "scpi.dict")) and r["bin"] == "fuzz_stream":
                cmd.insert(-1, "-dict=" + os.path.join(HERE, "corpus", "scpi.dict"))
            jobs.append({"cmd": cmd, "cdir": cdir, "prefix": prefix, "exe": exe, "cfg": r["cfg"], "bin": r["bin"], "idx": idx, "seeded": bool(seeded)})
            idx += 1

    fenv = dict(env)
    fenv["ASAN_OPTIONS"] = env.get("ASAN_OPTIONS", "") + ":handle_abort=1"

    def one(j):
        log = os.path.join(wdir, "fuzz-%d.log" % j["idx"])
        with open(log, "w") as lf:
            j["rc"] = subprocess.run(j["cmd"], stdout=lf, stderr=subprocess.STDOUT, env=fenv).returncode
        j["log"] = log
        # classification pass over the final corpus
        cls = os.path.join(wdir, "classify-%d.txt" % j["idx"])
        cenv = dict(fenv, VF_CLASSIFY_OUT=cls)
        subprocess.run([j["exe"], "-runs=0", "-timeout=25", j["cdir"]], stdout=subprocess.DEVNULL, stderr=subprocess.DEVNULL, env=cenv)
        j["cls"] = cls
        return j

    with ThreadPoolExecutor(ncpu) as ex:
        jobs = list(ex.map(one, jobs))

    out = {"evaluations": 0, "nontrivial": 0, "labels": {}, "info": {}, "samples": [], "candidates": []}
    for j in jobs:
        text = open(j["log"], errors="replace").read()
        m = re.search(r"stat::number_of_executed_units:\s*(\d+)", text)
        n = int(m.group(1)) if m else 0
        out["evaluations"] += n
        key = "fuzz-%s-%s-executions" % (j["cfg"], j["bin"])
        out["labels"][key] = out["labels"].get(key, 0) + n
        if os.path.exists(j["cls"]):
            kv = {}
            for line in open(j["cls"]):
                k, _, v = line.strip().partition("=")
                if k == "sample":
                    if len(out["samples"]) < 10:
                        out["samples"].append("fuzz corpus unit (%s %s): %r" % (j["cfg"], j["bin"], bytes.fromhex(v)))
                else:
                    kv[k] = int(v)
            out["nontrivial"] += kv.get("nontrivial", 0)
            for k in ("inputs", "handlers", "errors", "overruns", "flushes", "direct", "nocallbacks"):
                lk = "corpus-%s-%s" % (j["bin"], k)
                out["labels"][lk] = out["labels"].get(lk, 0) + kv.get(k, 0)
        for art in glob.glob(j["prefix"] + "*"):
            base = os.path.basename(art)[len(os.path.basename(j["prefix"])):]
            if base.startswith(("crash-", "leak-", "timeout-")):
                lines = text.strip().splitlines()
                keyl = [l for l in lines if ("ERROR: " in l or "SUMMARY: " in l or "runtime error" in l or "SEMANTIC-INVARIANT" in l or re.match(r"\s+#[0-4] ", l))][:10]
                out["candidates"].append((j["exe"], art, "libFuzzer artifact %s:\n%s" % (base.split("-")[0], "\n".join(keyl)), j["cfg"], j["bin"]))
        if j["rc"] not in (0,) and not glob.glob(j["prefix"] + "*"):
            out["info"]["fuzz-worker-%d" % j["idx"]] = "exit code %s without artifact (see log)" % j["rc"]
    out["info"]["fuzz"] = "libFuzzer: %d workers; distinct non-trivial = coverage-distinct corpus units that reach >= 1 handler or >= 1 queued error (classification pass)" % len(jobs)
    return out
