// C12 - events are classified, latched and announced as IEEE 488.2 / SCPI prescribe.
#include "status_explore.hpp"
using namespace vf;

static std::string chk(const Regs &a, const Op &o, const Regs &b, Inst &I) { return latchRules(a, o, b, I); }
static bool ntPred(const Hist &h) { return h.mssRises >= 2; }

static std::string replayOps(const Replay &r) { return runWalk(opsDec(r.get("ops")), (int) r.num("queue", 2), chk, nullptr, (int) r.num("mode", 0)); }
static void fail(const Opt &o, Ev &ev, const std::vector<Op> &path, int queue, const std::string &m) {
    failEnum(o, ev, "ops", fmt("queue=%d\nops=%s\n", queue, opsEnc(path).c_str()), m);
}

// (i) every 16-bit code pushed on a fresh context: ESR equals exactly the class bit
static std::string pushOne(int code) {
    InstCfg k = statusCfg(2);
    Inst I(k);
    SCPI_ErrorPush(&I.ctx, (int16_t) code);
    int esr = SCPI_RegGet(&I.ctx, SCPI_REG_ESR), exp = classBit(code);
    if (esr != exp) return fmt("error %d: ESR is 0x%x, expected exactly the class bit 0x%x", code, esr, exp);
    if (SCPI_ErrorCount(&I.ctx) != 1) return fmt("error %d: not queued", code);
    return "";
}
static void runCodes(const Opt &o, Ev &ev) {
    for (int code = -32768; code <= 32767; code++) {
        if (((code + 32768) % o.workers) != o.worker) continue;
        std::string m = pushOne(code);
        ev.eval();
        int d = abs(code) % 100;
        bool boundary = d <= 1 || d >= 99 || code == 32767 || code == -32768;
        if (boundary) ev.ntCount();
        if (boundary && ev.wantSample()) ev.sample(fmt("push %d -> ESR class bit 0x%x", code, classBit(code)));
        if (!m.empty()) { failEnum(o, ev, "code", fmt("code=%d\n", code), m); if (ev.failures.size() >= 3) return; }
    }
    ev.exhaustive["all 65536 error codes pushed on a fresh context (queue of 2, enables 0)"] = true;
}

static void runClosure(const Opt &o, Ev &ev) {
    // quick: each register group alone with all 8 value combinations (complete), pairs with 2 values per register;
    // thorough: single groups with every error class, pairs with 4 values per register, all three groups with 2 values
    struct Job { int scope, level, npush, queue; };
    std::vector<Job> jobs;
    if (o.quick()) {
        for (int sc : {1, 2, 4}) jobs.push_back({sc, 2, 3, 2});
        for (int sc : {3, 5, 6}) jobs.push_back({sc, 0, 2, 2});
    } else {
        for (int q : {1, 2, 3}) { jobs.push_back({1, 2, 10, q}); jobs.push_back({2, 2, 3, q}); jobs.push_back({4, 2, 3, q}); }
        for (int sc : {3, 5}) jobs.push_back({sc, 1, 2, 2});
        jobs.push_back({6, 0, 2, 3});
        jobs.push_back({7, 0, 2, 2});
    }
    for (size_t j = 0; j < jobs.size(); j++) {
        if ((int) (j % (size_t) o.workers) != o.worker) continue;
        ExploreStats st; std::vector<Op> path;
        std::string m = closure(jobs[j].scope, jobs[j].level, jobs[j].npush, jobs[j].queue, chk, st, &path, ev, 4000000);
        ev.eval(st.transitions); ev.ntCount(st.nontrivial);
        ev.label(fmt("closure-scope%d-level%d-push%d-q%d-states", jobs[j].scope, jobs[j].level, jobs[j].npush, jobs[j].queue), st.states);
        if (!m.empty()) { fail(o, ev, path, jobs[j].queue, m); return; }
        if (!ev.info.count("closure-truncated")) ev.exhaustive[fmt("closure of register-group scope %d (%d values per register, %d error codes) with queue capacity %d: every reachable state x every operation, callback observed on every transition", jobs[j].scope, jobs[j].level == 0 ? 2 : jobs[j].level == 1 ? 4 : 8, jobs[j].npush, jobs[j].queue)] = true;
    }
}
static void runSequences(const Opt &o, Ev &ev) {
    // quick: every sequence of length <= 3 over the 4-values-per-register alphabet; thorough: length <= 4 over that
    // alphabet and length <= 5 over the 2-values-per-register alphabet
    struct Job { int depth, level, npush; };
    std::vector<Job> jobs;
    if (o.quick()) jobs.push_back({3, 1, 4}); else { jobs.push_back({4, 1, 4}); jobs.push_back({5, 0, 2}); }
    for (auto &j : jobs) {
        ExploreStats st; std::vector<Op> path;
        std::string m = sequences(j.depth, j.level, j.npush, chk, st, &path, o.worker, o.workers, ntPred, ev);
        ev.eval(st.transitions); ev.ntCount(st.nontrivial); ev.label(fmt("sequence-steps-depth%d-level%d", j.depth, j.level), st.transitions);
        if (!m.empty()) { fail(o, ev, path, 2, m); return; }
        ev.exhaustive[fmt("every operation sequence of length <= %d over the alphabet of all three register groups (%d values per register, %d error codes) from the initial state", j.depth, j.level == 0 ? 2 : 4, j.npush)] = true;
    }
}
static std::string bodyWalk(Src &s, Ev &ev) {
    int queue = (int) s.range(1, 4);
    std::vector<Op> ops = decodeWalk(s, 200);
    int mode = s.prob(1, 3) ? 1 : 0;                         // the service-request callback reports that it could not deliver the request
    Hist h;
    std::string m = runWalk(ops, queue, chk, &h, mode);
    if (mode) ev.label("walk-control-callback-returns-error");
    ev.eval(ops.size());
    ev.label("walk-ops", ops.size());
    ev.label("walk-mss-rises", (uint64_t) h.mssRises);
    if (h.mssRises >= 2) ev.nt(hashStr(opsEnc(ops)));
    if (h.mssRises >= 2 && ev.wantSample()) ev.sample(fmt("walk with %d MSS rises: ", h.mssRises) + opsText(std::vector<Op>(ops.begin(), ops.begin() + (long) std::min(ops.size(), (size_t) 12))) + (ops.size() > 12 ? "..." : ""));
    return m;
}

int main(int argc, char **argv) {
    std::vector<Sub> subs;
    subs.push_back({"ops", [](const Opt &, Ev &) {}, replayOps});
    subs.push_back({"code", runCodes, [](const Replay &r) { return pushOne((int) r.num("code")); }});
    subs.push_back({"closure", runClosure, replayOps});
    subs.push_back({"sequences", runSequences, replayOps});
    subs.push_back({"walk", [](const Opt &o, Ev &ev) { runRandom(o, ev, "walk", 650, o.quick() ? 1500 : 60000, bodyWalk); },
                    [](const Replay &r) { auto v = r.choices(); Src s(v); Ev e; return bodyWalk(s, e); }});
    return mainWith(argc, argv, "C12", subs);
}
