// C08 - behaviour depends on the byte stream, not on how it is cut into input calls.
// Oracle: differential - every chunking of a stream must produce the same observable
// trace as feeding it one byte at a time (handlers + parameters, output bytes,
// flushes, error callbacks, drained queue, unconsumed remainder, registers).
#include "world.hpp"
using namespace vf;

struct Segment { std::string bytes; bool flushAfter; };
struct Stream { World w; std::vector<Segment> segs; bool tight; int slack; size_t replaced = 0; bool decoy = false; bool preOverrun = false; /* before the stream: some clean ';'-terminated units left pending, then one call that overruns the buffer - the same two calls in every run */ };

struct Obs { std::vector<std::string> events; std::string out; int flushes = 0; std::vector<std::string> queue; std::string pending, regs; std::vector<size_t> pendingProfile; std::string invariant; bool overrun = false; };

// chunks: for each segment a list of chunk lengths (summing to the segment length)
static Obs runChunked(const Stream &st, const std::vector<std::vector<size_t>> &chunks, size_t bufLen) {
    InstCfg k8 = worldCfg(st.w, bufLen, 64); k8.decoy = st.decoy;      // a second instrument is fed every chunk first, then a lone CR (fixture.hpp)
    Inst I(k8);
    Obs o;
    if (st.preOverrun && !st.w.table.empty()) {
        std::string h = "*CLS", pre;                 // lexically clean units; they are never executed (no terminator before the overrun)
        while (pre.size() + h.size() + 1 < bufLen / 2) pre += h + ";";
        if (pre.empty()) pre = "A;";
        if (pre.size() < bufLen) I.input(pre);
        I.input(std::string(bufLen + 3, 'x'));
        I.trace.clear(); I.out.clear(); I.flushes = 0; I.errors.clear(); I.drainErrors();
        if (I.ctx.buffer.position != 0) o.invariant = "the input buffer is not empty after an overrun";
    }
    for (size_t si = 0; si < st.segs.size(); si++) {
        size_t pos = 0;
        for (size_t len : chunks[si]) {
            I.input(st.segs[si].bytes.data() + pos, (int) len);
            pos += len;
            for (size_t k = 0; k < len; k++) o.pendingProfile.push_back(I.ctx.buffer.position);   // only exact at chunk ends; the byte-wise run makes every entry exact
        }
        if (st.segs[si].flushAfter) I.input("", 0);
    }
    for (auto &l : I.trace) if (l[0] == 'H' || l[0] == 'N' || l[0] == 'I' || l[0] == 'V' || l[0] == 'E') { o.events.push_back(l); if (l == "E:-363") o.overrun = true; }
    o.out = I.out; o.flushes = I.flushes; o.pending = I.pending(); o.regs = I.regs(); o.invariant = I.invariant;
    o.queue = I.drainErrors();
    return o;
}
static std::string diff(const Obs &a, const Obs &b) {
    if (!b.invariant.empty()) return b.invariant;
    if (a.events != b.events) {
        size_t i = 0; while (i < a.events.size() && i < b.events.size() && a.events[i] == b.events[i]) i++;
        return fmt("handler/parameter/error events differ at #%zu: byte-wise '%s' vs chunked '%s'", i, i < a.events.size() ? a.events[i].c_str() : "(end)", i < b.events.size() ? b.events[i].c_str() : "(end)");
    }
    if (a.out != b.out) return "output bytes differ: byte-wise '" + vis(a.out.substr(0, 80)) + "' vs chunked '" + vis(b.out.substr(0, 80)) + "'";
    if (a.flushes != b.flushes) return fmt("flush count differs: %d vs %d", a.flushes, b.flushes);
    if (a.queue != b.queue) return "queued errors differ";
    if (a.pending != b.pending) return "unconsumed remainder differs: byte-wise '" + vis(a.pending) + "' vs chunked '" + vis(b.pending) + "'";
    if (a.regs != b.regs) return "status registers differ: " + a.regs + " vs " + b.regs;
    return "";
}

static Stream decode(Src &s) {
    Stream st;
    st.w = genWorld(s, false);
    int nm = (int) s.weighted({3, 3, 2, 1, 1, 1, 1, 1}) + 1;
    MsgOpt mo;
    std::string cur;
    for (int m = 0; m < nm; m++) {
        bool last = m + 1 == nm;
        mo.terminate = !(last && s.prob(1, 5));          // the stream may end in an incomplete message
        std::string msg = genMessage(s, st.w, mo);
        if (s.prob(1, 4)) mutateBytes(s, msg);
        cur += msg;
        if (s.prob(1, 8) || last) { st.segs.push_back({cur, s.prob(1, 3)}); cur.clear(); }
    }
    if (knownActive("C08-F1")) for (auto &sg : st.segs) st.replaced += neutraliseQuotedTerminators(sg.bytes);
    st.tight = s.coin(); st.slack = (int) s.range(0, 3);
    st.decoy = s.prob(1, 8);
    st.preOverrun = s.prob(1, 6);
    return st;
}
static std::string describe(const Stream &st) {
    std::string t = "table [";
    for (size_t i = 0; i < st.w.table.size(); i++) t += fmt("%zu:'", i + 1) + st.w.table[i].text + "' ";
    t += "] stream";
    for (auto &sg : st.segs) t += " '" + vis(sg.bytes) + "'" + (sg.flushAfter ? "+flush" : "");
    return t;
}

static uint64_t g_excluded = 0;
static std::string checkStream(const Stream &st, Src &s, Ev *ev, bool *nt) {
    size_t total = 0; for (auto &sg : st.segs) total += sg.bytes.size();
    // reference: one byte at a time, large buffer
    std::vector<std::vector<size_t>> bytewise;
    for (auto &sg : st.segs) bytewise.push_back(std::vector<size_t>(sg.bytes.size(), 1));
    size_t bigLen = total + 2;
    Obs ref = runChunked(st, bytewise, bigLen);
    if (!ref.invariant.empty()) return ref.invariant + ": " + describe(st);
    size_t maxPending = 0; for (size_t p : ref.pendingProfile) maxPending = std::max(maxPending, p);
    size_t bufLen = st.tight ? maxPending + 2 + (size_t) st.slack : bigLen;
    if (st.tight) {
        Obs ref2 = runChunked(st, bytewise, bufLen);
        std::string d = diff(ref, ref2);
        if (ref2.overrun) return "harness: the tight buffer overran in the reference run";
        if (!d.empty()) return "byte-wise run differs between a large and an exactly sufficient input buffer: " + d + ": " + describe(st);
    }
    // pending bytes before offset a of segment si (reference profile is indexed by global byte offset)
    std::vector<size_t> segStart; { size_t a = 0; for (auto &sg : st.segs) { segStart.push_back(a); a += sg.bytes.size(); } }
    auto pendingBefore = [&](size_t si, size_t off) -> size_t {
        size_t g = segStart[si] + off;
        if (off == 0) return (si == 0 || st.segs[si - 1].flushAfter) ? 0 : (g ? ref.pendingProfile[g - 1] : 0);
        return ref.pendingProfile[g - 1];
    };
    auto admissible = [&](size_t si, size_t off, size_t len) { return pendingBefore(si, off) + len + 1 <= bufLen; };
    uint64_t runs = 0; bool innerSplit = false;
    auto tryChunks = [&](const std::vector<std::vector<size_t>> &ch, const char *what) -> std::string {
        Obs o = runChunked(st, ch, bufLen);
        runs++;
        if (o.overrun && !ref.overrun) { std::string cs; for (auto &v : ch) { cs += "["; for (size_t l : v) cs += fmt("%zu ", l); cs += "]"; } std::string pp; for (size_t p : ref.pendingProfile) pp += fmt("%zu ", p); return std::string("harness: inadmissible chunking generated (") + what + ") " + cs + fmt(" buf=%zu profile=", bufLen) + pp + describe(st); }
        std::string d = diff(ref, o);
        if (d.empty()) return "";
        std::string cs; for (auto &v : ch) { cs += "["; for (size_t l : v) cs += fmt("%zu ", l); cs += "]"; }
        return std::string(what) + " chunking " + cs + fmt(" (buffer %zu): ", bufLen) + d + ": " + describe(st);
    };
    // greedy completion of a chunking that respects admissibility
    auto complete = [&](size_t si, size_t off, std::vector<size_t> &v, bool maximal) {
        size_t n = st.segs[si].bytes.size();
        while (off < n) {
            size_t room = bufLen - 1 - pendingBefore(si, off);
            size_t len = std::min(n - off, std::max((size_t) 1, room));
            if (!maximal) len = std::min(len, (size_t) s.range(1, 7));
            if (!admissible(si, off, len)) len = 1;
            v.push_back(len); off += len;
        }
    };
    // all-at-once (as far as the buffer admits)
    { std::vector<std::vector<size_t>> ch; for (size_t si = 0; si < st.segs.size(); si++) { std::vector<size_t> v; complete(si, 0, v, true); ch.push_back(v); } std::string m = tryChunks(ch, "all-at-once"); if (!m.empty()) return m; }
    // every single split point
    for (size_t si = 0; si < st.segs.size(); si++) for (size_t k = 1; k < st.segs[si].bytes.size(); k++) {
        std::vector<std::vector<size_t>> ch;
        for (size_t sj = 0; sj < st.segs.size(); sj++) {
            std::vector<size_t> v;
            if (sj != si) complete(sj, 0, v, true);
            else {
                // largest admissible chunks up to the split point k, then from k on
                size_t off = 0;
                while (off < k) { size_t room = bufLen - 1 - pendingBefore(sj, off); size_t len = std::min(k - off, std::max((size_t) 1, room)); v.push_back(len); off += len; }
                complete(sj, k, v, true);
            }
            ch.push_back(v);
        }
        innerSplit = true;
        std::string m = tryChunks(ch, "single-split"); if (!m.empty()) return m;
    }
    // random multi-way splits
    for (int r = 0; r < 8; r++) {
        std::vector<std::vector<size_t>> ch;
        for (size_t si = 0; si < st.segs.size(); si++) { std::vector<size_t> v; complete(si, 0, v, false); ch.push_back(v); }
        std::string m = tryChunks(ch, "random"); if (!m.empty()) return m;
    }
    if (ev) { ev->eval(runs); ev->label("chunked-runs", runs); }
    if (nt) {
        bool embedded = false; size_t terms = 0;
        for (auto &sg : st.segs) { for (size_t i = 0; i < sg.bytes.size(); i++) { if (sg.bytes[i] == '\n' || sg.bytes[i] == '\r') terms++; if (sg.bytes[i] == '#' || sg.bytes[i] == '"' || sg.bytes[i] == '\'') embedded = true; } }
        *nt = innerSplit && (terms >= 2 || embedded);
    }
    return "";
}

static std::string body(Src &s, Ev &ev) {
    Stream st = decode(s);
    bool nt = false;
    std::string m = checkStream(st, s, &ev, &nt);
    if (st.tight) ev.label("tight-buffer"); else ev.label("large-buffer");
    if (st.replaced) { g_excluded++; ev.label("streams-altered-for-C08-F1"); }
    if (!ev.frozen) ev.excluded["C08-F1 streams with CR/LF inside a quoted span (bytes neutralised)"] = g_excluded;
    if (nt) { ev.nt(hashStr(describe(st))); if (ev.wantSample()) ev.sample(describe(st)); }
    return m;
}

// explicit form for the listed finding: table=pat|pat  stream=<hex>
static std::string replayStream(const Replay &r) {
    Stream st; std::string t = r.get("table"); size_t i = 0;
    while (i <= t.size()) { size_t e = t.find('|', i); GenPattern p; p.text = t.substr(i, e == std::string::npos ? std::string::npos : e - i); st.w.table.push_back(p); Script sc; Reader rd; rd.kind = R_CHARS; rd.mandatory = false; sc.readers.push_back(rd); st.w.scripts.push_back(sc); if (e == std::string::npos) break; i = e + 1; }
    st.segs.push_back({hexDec(r.get("stream")), false}); st.tight = false; st.slack = 0;
    std::vector<uint32_t> none; Src s(none);
    return checkStream(st, s, nullptr, nullptr);
}

int main(int argc, char **argv) {
    std::vector<Sub> subs;
    subs.push_back({"stream", [](const Opt &, Ev &) {}, replayStream});
    subs.push_back({"rand", [](const Opt &o, Ev &ev) { g_shrinkBudget = 4000; runRandom(o, ev, "rand", 1500, o.quick() ? 600 : 6000, body); },
                    [](const Replay &r) { auto v = r.choices(); Src s(v); Ev e; return body(s, e); }});
    return mainWith(argc, argv, "C08", subs);
}
