// Exact-size caller buffers.  Under ASan the allocation is exactly n bytes so the
// red zone is the bound (n == 0: a pointer one past the end of a live 1-byte
// block, because ASan does not trap accesses to malloc(0)).  Without ASan the
// buffer is followed by canary bytes that ok() verifies.
#pragma once
#include <cstdlib>
#include <cstring>
#include <cstddef>
#include <sys/mman.h>

#if defined(__has_feature)
#if __has_feature(address_sanitizer)
#define VF_ASAN 1
#endif
#endif
#if defined(__SANITIZE_ADDRESS__)
#define VF_ASAN 1
#endif
#ifndef VF_ASAN
#define VF_ASAN 0
#endif

// progress counter of the hang watchdog (common.cpp): bumped wherever a case allocates a buffer, builds an instrument,
// feeds input or reports a count; no progress over 20 s of CPU time = the library does not return
namespace vf { inline volatile unsigned long vf_progress = 0; inline void vfTick() { vf_progress = vf_progress + 1; } }

namespace vf {
// A read-only source buffer: the bytes sit at the end of pages that are made read-only after filling and are followed by an
// inaccessible page - what a `const` table in flash is to a library that is handed a pointer to const.  A store into it, or a
// read behind it, faults (ASan reports the SEGV and the case is dumped).
struct RoBuf {
    char *map = nullptr; size_t mapLen = 0; char *p = nullptr;
    RoBuf(const void *src, size_t n) {
        vf::vfTick();
        size_t pg = 4096, data = ((n + 7) / 8 * 8 + pg - 1) / pg * pg; if (data == 0) data = pg;
        mapLen = data + pg;
        map = (char *) mmap(nullptr, mapLen, PROT_READ | PROT_WRITE, MAP_PRIVATE | MAP_ANONYMOUS, -1, 0);
        if (map == MAP_FAILED) { map = nullptr; abort(); }
        p = map + data - (n + 7) / 8 * 8;
        if (n) memcpy(p, src, n);
        mprotect(map, data, PROT_READ);
        mprotect(map + data, pg, PROT_NONE);
    }
    ~RoBuf() { if (map) munmap(map, mapLen); }
    RoBuf(const RoBuf &) = delete;
};

struct XBuf {
    char *base;
    char *p;
    size_t n;
    static const size_t kCanary = 16;
    explicit XBuf(size_t len, unsigned char fill = 0xA5) : n(len) {
        vfTick();
#if VF_ASAN
        base = (char *) malloc(len ? len : 1);
        p = len ? base : base + 1;
        if (len) memset(base, fill, len);
#else
        base = (char *) malloc(len + kCanary);
        p = base;
        memset(base, fill, len);
        memset(base + len, 0x5C, kCanary);
#endif
    }
    XBuf(const XBuf &) = delete;
    XBuf &operator=(const XBuf &) = delete;
    ~XBuf() { free(base); }
    bool ok() const {
#if VF_ASAN
        return true;
#else
        for (size_t i = 0; i < kCanary; i++) if ((unsigned char) base[n + i] != 0x5C) return false;
        return true;
#endif
    }
};
} // namespace vf
