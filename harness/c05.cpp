// C05 - wrong, missing or surplus parameters raise the right error, never mis-delivered.
// Oracle: reference evaluation of (handler signature, parameter list) under the fixed
// handler policy of the fixture, using a type-compatibility table written from the
// property text and the reader documentation.
#include "gen.hpp"
using namespace vf;

struct Sig { std::vector<Reader> readers; int outcome = 0; /* 0 ok, 1 fails silently, 2 own error then fails, 3 own error then ok */ int ownCode = -221; };
struct PUnit { int entry = 0; std::vector<Datum> items; std::vector<std::string> seps; std::string lead; int malformedAt = -1; std::string malformed; bool trailingComma = false; };
struct PCase { std::vector<Sig> sigs; std::vector<PUnit> units; std::string text; bool tightBuffer = false; bool decoy = false; int fullQueue = 0; /* > 0: queue of that size, already full when the message arrives */ };

struct Compat { int code = 0; int alt = 0; std::string value; };   // code 0 = delivered; value "?" = delivered but not compared

static Compat compat(const Reader &r, const Datum &d) {
    Compat c;
    bool isNum = d.kind == D_DEC_INT || d.kind == D_DEC_REAL || d.kind == D_NONDEC;
    bool suffixed = d.kind == D_SUFFIX_KNOWN || d.kind == D_SUFFIX_UNKNOWN;
    bool isChar = d.kind >= D_CHAR_CHOICE && d.kind <= D_CHAR_OTHER;
    switch (r.kind) {
        case R_I32: case R_U32: case R_I64: case R_U64: case R_F32: case R_F64: case R_ARR_I32: case R_ARR_U32: case R_ARR_F64:
            if (suffixed) { c.code = -138; break; }
            if (!isNum) { c.code = -104; break; }
            if (r.kind == R_F32) c.value = d.kind == D_NONDEC ? bitsF((float) (uint32_t) d.ival) : bitsF(strtof(d.text.c_str(), nullptr));
            else if (r.kind == R_F64 || r.kind == R_ARR_F64) c.value = d.kind == D_NONDEC ? bitsD((double) (uint64_t) d.ival) : bitsD(strtod(d.text.c_str(), nullptr));
            else if (d.kind == D_DEC_REAL) c.value = "?";                                    // 10.5 -> 10 is pinned by the test-suite only
            else if ((r.kind == R_U32 || r.kind == R_U64 || r.kind == R_ARR_U32) && d.ival < 0) c.value = "?";
            else if (r.kind == R_I32 || r.kind == R_ARR_I32) c.value = fmt("%d", (int32_t) d.ival);
            else if (r.kind == R_U32 || r.kind == R_ARR_U32) c.value = fmt("%u", (uint32_t) d.ival);
            else if (r.kind == R_I64) c.value = fmt("%lld", d.ival);
            else c.value = fmt("%llu", (unsigned long long) d.ival);
            break;
        case R_NUM:
            if (isNum) c.value = fmt("%s:unit0:base%d", bitsD(d.kind == D_NONDEC ? (double) (uint64_t) d.ival : strtod(d.text.c_str(), nullptr)).c_str(), d.kind == D_NONDEC ? d.base : 10);
            else if (d.kind == D_SUFFIX_KNOWN) c.value = fmt("%s:unit%d:base10", bitsD(d.dval).c_str(), d.unit);
            else if (d.kind == D_SUFFIX_UNKNOWN) c.code = -131;
            else if (d.kind == D_CHAR_SPECIAL) c.value = fmt("special:%d:base10", d.tag);
            else if (isChar) c.code = -224;
            else c.code = -104;
            break;
        case R_BOOL:
            if (d.kind == D_DEC_INT) c.value = d.ival ? "1" : "0";
            else if (d.kind == D_DEC_REAL) c.value = "?";
            else if (d.kind == D_CHAR_BOOL) c.value = d.tag ? "1" : "0";
            else if (isChar) c.code = -224;
            else { c.code = -104; if (suffixed) c.alt = -138; }
            break;
        case R_CHOICE:
            if (d.kind == D_CHAR_CHOICE) c.value = fmt("%d", d.tag);
            else if (isChar) c.code = -224;
            else { c.code = -104; if (suffixed) c.alt = -138; }
            break;
        case R_CHARS:
            if (d.kind == D_STR_DQ || d.kind == D_STR_SQ) c.value = hexEnc(d.text.substr(1, d.text.size() - 2));
            else if (d.kind == D_BLOCK) c.value = hexEnc(d.content);
            else if (d.kind == D_NONDEC) c.value = hexEnc(d.text.substr(2));
            else c.value = hexEnc(d.text);
            break;
        case R_RAW:
            c.value = "?";
            break;
        case R_TEXT:
            if (d.kind == D_STR_DQ || d.kind == D_STR_SQ) { size_t cl = std::min(d.content.size(), (size_t) r.n); c.value = fmt("%zu:", cl) + hexEnc(d.content.substr(0, cl)); }
            else c.code = -104;
            break;
        case R_BLOCK:
            if (d.kind == D_BLOCK) c.value = hexEnc(d.content); else c.code = -104;
            break;
        default: c.value = "?"; break;
    }
    return c;
}

// expected event list of one unit; "~" inside a line = wildcard tail
struct Expected { std::vector<std::string> events; std::vector<int> errors; bool handlerRuns = true; };

static Expected evaluate(const Sig &sig, const PUnit &u, int tag, const std::string &header) {
    Expected e;
    if (u.malformedAt >= 0 || u.trailingComma) { e.handlerRuns = false; return e; }   // judged separately
    e.events.push_back(fmt("H:%d:", tag) + header);
    size_t pos = 0; bool aborted = false, anyError = false;
    auto push = [&](int code) { e.events.push_back(fmt("E:%d", code)); e.errors.push_back(code); anyError = true; };
    for (auto &r : sig.readers) {
        bool arr = r.kind == R_ARR_I32 || r.kind == R_ARR_U32 || r.kind == R_ARR_F64;
        if (arr) {
            size_t count = 0; bool mand = r.mandatory; std::string vals; bool wild = false;
            for (int j = 0; j < r.n; j++) {
                if (pos >= u.items.size()) { if (mand) push(-109); break; }
                Compat c = compat(r, u.items[pos++]);
                if (c.code) { e.events.push_back(c.alt ? fmt("E:%d|%d", c.code, c.alt) : fmt("E:%d", c.code)); e.errors.push_back(c.code); anyError = true; break; }
                if (c.value == "?") wild = true;
                vals += c.value + ","; count++; mand = false;
            }
            bool ok = !(r.mandatory && count == 0);
            e.events.push_back(fmt("V:%s:%d:%d:", kRName[r.kind], (int) ok, (int) anyError) + (wild ? "~" : fmt("%zu:", count) + vals));
            if (!ok) { aborted = true; break; }
            continue;
        }
        if (pos >= u.items.size()) {
            if (r.mandatory) { push(-109); e.events.push_back(fmt("V:%s:0:1:", kRName[r.kind])); aborted = true; break; }
            e.events.push_back(fmt("V:%s:0:%d:", kRName[r.kind], (int) anyError));
            if (anyError) { aborted = true; break; }      // policy: FALSE with the error flag set stops the handler
            continue;
        }
        Compat c = compat(r, u.items[pos++]);
        if (c.code) {
            e.events.push_back(c.alt ? fmt("E:%d|%d", c.code, c.alt) : fmt("E:%d", c.code)); e.errors.push_back(c.code); anyError = true;
            e.events.push_back(fmt("V:%s:0:1:", kRName[r.kind]));
            aborted = true; break;
        }
        e.events.push_back(fmt("V:%s:1:%d:", kRName[r.kind], (int) anyError) + (c.value == "?" ? "~" : c.value));
    }
    bool retOk = true;
    if (!aborted) {
        if (sig.outcome >= 2) push(sig.ownCode);
        retOk = !(sig.outcome == 1 || sig.outcome == 2);
    } else retOk = false;
    if (!retOk && !anyError) push(-200);
    if (pos < u.items.size() && !anyError) push(-108);
    return e;
}

static bool lineMatches(const std::string &exp, const std::string &got) {
    if (exp.compare(0, 2, "E:") == 0 && exp.find('|') != std::string::npos) { size_t b = exp.find('|'); return got == exp.substr(0, b) || got == "E:" + exp.substr(b + 1); }
    size_t w = exp.find('~');
    if (w != std::string::npos) return got.compare(0, w, exp, 0, w) == 0;
    return exp == got;
}

static std::string unitText(const PUnit &u, const std::string &header) {
    std::string t = u.lead + header;
    size_t n = u.items.size();
    for (size_t i = 0; i < n; i++) {
        t += (i == 0 ? " " : ",");
        t += u.seps[2 * i];
        t += ((int) i == u.malformedAt) ? u.malformed : u.items[i].text;
        t += u.seps[2 * i + 1];
    }
    if (u.trailingComma) t += n ? "," : " ,";
    if (n == 0 && !u.trailingComma && !u.lead.empty()) t += u.lead;     // header followed by white space only (reuses the unit's leading white space)
    return t;
}

static PCase decode(Src &s) {
    PCase c;
    int nsig = (int) s.range(1, 3);
    for (int i = 0; i < nsig; i++) {
        Sig g; int nr = (int) s.weighted({1, 4, 4, 2, 1});
        bool optionalTail = false;
        for (int k = 0; k < nr; k++) {
            Reader r;
            if (s.prob(1, 7)) { r.kind = s.pick(std::vector<RKind>{R_ARR_I32, R_ARR_U32, R_ARR_F64}); r.n = (int) s.range(1, 4); }
            else { r.kind = kScalarReaders[s.range(0, 12)]; r.n = r.kind == R_TEXT ? (int) s.range(0, 30) : 1; }
            if (optionalTail || s.prob(1, 4)) { r.mandatory = false; optionalTail = true; }
            g.readers.push_back(r);
        }
        g.outcome = (int) s.weighted({8, 1, 1, 1});
        g.ownCode = s.coin() ? -221 : -240;
        c.sigs.push_back(g);
    }
    bool longList = s.prob(1, 40);
    if (longList) {
        // a list longer than any 8-bit bookkeeping holds (an uploaded trace): one array reader or a run of scalar readers, then one more
        Sig g; int n = (int) s.range(250, 400);
        if (s.coin()) { Reader r; r.kind = s.pick(std::vector<RKind>{R_ARR_I32, R_ARR_U32, R_ARR_F64}); r.n = n; g.readers.push_back(r); }
        else for (int k = 0; k < n; k++) { Reader r; r.kind = s.coin() ? R_I32 : R_F64; g.readers.push_back(r); }
        { Reader r; r.kind = R_I32; r.mandatory = s.coin(); g.readers.push_back(r); }
        c.sigs.assign(1, g); nsig = 1;
    }
    int nu = longList ? 1 : (int) s.weighted({5, 2, 1}) + 1;
    DatumOpt dopt; dopt.allowTerminatorBytes = false;    // CR/LF inside strings is C08's listed finding; keep C05 about parameters
    for (int u = 0; u < nu; u++) {
        PUnit pu; pu.entry = (int) s.range(0, (uint64_t) nsig - 1);
        const Sig &g = c.sigs[(size_t) pu.entry];
        // start from a compatible list, then perturb
        for (auto &r : g.readers) {
            int n = (r.kind == R_ARR_I32 || r.kind == R_ARR_U32 || r.kind == R_ARR_F64) ? (int) s.range(1, (uint64_t) r.n) : 1;
            if (!r.mandatory && s.prob(1, 3)) break;
            for (int j = 0; j < n; j++) pu.items.push_back(genDatum(s, compatibleKind(s, r), dopt));
        }
        if (longList) {
            // compatible list as generated (an array reader takes its full length here), now and then one item short or one too many
            pu.items.clear();
            for (auto &r : g.readers) { int n = (r.kind == R_ARR_I32 || r.kind == R_ARR_U32 || r.kind == R_ARR_F64) ? r.n : 1; for (int j = 0; j < n; j++) pu.items.push_back(genDatum(s, D_DEC_INT, dopt)); }
            switch (s.weighted({4, 1, 1})) { case 1: pu.items.pop_back(); break; case 2: pu.items.push_back(genDatum(s, D_DEC_INT, dopt)); break; default: break; }
        } else
        switch (s.weighted({5, 2, 2, 3, 1, 1})) {
            case 0: break;
            case 1: if (!pu.items.empty()) pu.items.pop_back(); break;                                             // missing
            case 2: pu.items.push_back(genDatum(s, (int) s.range(0, D_KINDS - 1), dopt)); break;                    // surplus
            case 3: if (!pu.items.empty()) pu.items[s.range(0, pu.items.size() - 1)] = genDatum(s, (int) s.range(0, D_KINDS - 1), dopt); break;   // any type
            case 4: if (!pu.items.empty()) { pu.malformedAt = (int) s.range(0, pu.items.size() - 1); pu.malformed = genMalformed(s); } else { pu.items.push_back(genDatum(s, D_DEC_INT, dopt)); pu.malformedAt = 0; pu.malformed = genMalformed(s); } break;
            default: pu.trailingComma = true; break;
        }
        if (!longList && pu.items.size() > 5) pu.items.resize(5);
        if (pu.malformedAt >= (int) pu.items.size()) pu.malformedAt = (int) pu.items.size() - 1;
        // an unterminated quote would pair up with a quote in a later item and become a valid string: keep it last
        if (pu.malformedAt >= 0 && (pu.malformed[0] == '"' || pu.malformed[0] == '\'')) pu.items.resize((size_t) pu.malformedAt + 1);
        // a non-decimal number given to a Bool reader is left open by the statement (numeric, but not the decimal 0/1 the
        // reader documents): replace it by something that is certainly of the wrong type instead of pinning either outcome
        {
            size_t pos = 0;
            for (auto &r : g.readers) {
                bool arr = r.kind == R_ARR_I32 || r.kind == R_ARR_U32 || r.kind == R_ARR_F64;
                size_t take = arr ? (size_t) r.n : 1;
                for (size_t j = 0; j < take && pos < pu.items.size(); j++, pos++)
                    if (r.kind == R_BOOL && pu.items[pos].kind == D_NONDEC) pu.items[pos] = genDatum(s, D_STR_DQ, dopt);
            }
        }
        for (size_t i = 0; i < pu.items.size(); i++) { pu.seps.push_back(wsp(s, 2)); pu.seps.push_back(wsp(s, 2)); }
        pu.lead = u ? wsp(s, 1) : "";
        c.units.push_back(pu);
        if (pu.malformedAt >= 0 || pu.trailingComma) break;   // the parser resynchronises byte by byte after malformed data: keep it the last unit
    }
    for (size_t u = 0; u < c.units.size(); u++) c.text += (u ? ";" : "") + unitText(c.units[u], fmt(":CMD%d", c.units[u].entry));
    c.text += s.pick(std::vector<std::string>{"\n", "\r\n"});
    c.tightBuffer = s.coin();
    if (s.prob(1, 5)) c.fullQueue = (int) s.range(1, 3);
    c.decoy = s.prob(1, 4);          // a second instrument with another unit table is fed the same bytes first (fixture.hpp)     // the controller has not drained the queue: every error of the message overflows
    return c;
}

static std::string sigText(const Sig &g) {
    std::string t = "(";
    for (auto &r : g.readers) t += std::string(kRName[r.kind]) + (r.n != 1 ? fmt("[%d]", r.n) : "") + (r.mandatory ? "" : "?") + " ";
    static const char *oc[] = {"", "; fails silently", "; own error then fails", "; own error then succeeds"};
    return t + ")" + oc[g.outcome];
}
static std::string describe(const PCase &c) {
    std::string t = "signatures";
    for (size_t i = 0; i < c.sigs.size(); i++) t += fmt(" CMD%zu", i) + sigText(c.sigs[i]);
    return t + " message '" + vis(c.text) + "'" + (c.fullQueue ? fmt(" [queue of %d entries, full before the message]", c.fullQueue) : "");
}

static std::string runCase(const PCase &c, bool *nt = nullptr, std::vector<std::string> *labels = nullptr) {
    InstCfg k; k.bufLen = c.tightBuffer ? c.text.size() + 1 : c.text.size() + 64; k.queueLen = 64; k.heapLen = 2048;
    for (size_t i = 0; i < c.sigs.size(); i++) {
        Cmd cmd; cmd.pattern = fmt("CMD%zu", i); cmd.script.readers = c.sigs[i].readers;
        if (c.sigs[i].outcome >= 2) { OItem x; x.kind = O_ERRPUSH; x.code = c.sigs[i].ownCode; cmd.script.items.push_back(x); }
        cmd.script.retOk = !(c.sigs[i].outcome == 1 || c.sigs[i].outcome == 2);
        k.cmds.push_back(cmd);
    }
    if (c.fullQueue) k.queueLen = c.fullQueue;
    k.decoy = c.decoy;
    Inst I(k);
    if (c.fullQueue) {
        // which errors a unit raises, whether its handler runs and what the input call returns do not depend on how many
        // errors the controller has left in the queue; only the queue content does (C10), and each overflow is announced
        // by an additional -350 callback, which is dropped from the trace below
        for (int i = 0; i < c.fullQueue; i++) SCPI_ErrorPush(&I.ctx, (int16_t) (-300 - i));
        I.trace.clear(); I.errors.clear();
    }
    bool ret = I.input(c.text);
    if (!I.invariant.empty()) return I.invariant + ": " + describe(c);
    // split the trace per unit: a unit's events start at its H line (or are bare E lines before the next H)
    std::vector<std::string> got;
    for (auto &l : I.trace) if (l[0] == 'H' || l[0] == 'V' || l[0] == 'E') { if (c.fullQueue && l == "E:-350") continue; got.push_back(l); }
    size_t gi = 0; bool anyErr = false, interesting = false;
    for (size_t u = 0; u < c.units.size(); u++) {
        const PUnit &pu = c.units[u];
        std::string header = fmt(":CMD%d", pu.entry);
        Expected e = evaluate(c.sigs[(size_t) pu.entry], pu, pu.entry + 1, header);
        if (pu.items.size() >= 2 || !e.errors.empty() || !e.handlerRuns) interesting = true;
        if (!e.handlerRuns) {
            // malformed data: no value derived from it may be delivered; the unit queues >= 1 command error (-1xx)
            bool cmdErr = false; size_t start = gi;
            for (; gi < got.size(); gi++) if (got[gi].compare(0, 2, "E:") == 0) { int code = atoi(got[gi].c_str() + 2); if (code <= -100 && code >= -199) cmdErr = true; anyErr = true; }
            size_t delivered = 0;
            for (size_t x = start; x < got.size(); x++) if (got[x].compare(0, 2, "V:") == 0) { size_t p1 = got[x].find(':', 2); if (p1 != std::string::npos && got[x].compare(p1, 3, ":1:") == 0) delivered++; }
            size_t limit = pu.trailingComma ? pu.items.size() : (size_t) pu.malformedAt;
            if (delivered > limit) return fmt("unit %zu: %zu values delivered although the data is malformed from item %zu on: ", u, delivered, limit) + describe(c);
            if (!cmdErr) return fmt("unit %zu contains text that is not well-formed program data but queued no command error (-1xx): ", u) + describe(c);
            if (labels) labels->push_back("malformed");
            break;
        }
        for (auto &x : e.events) {
            if (gi >= got.size() || !lineMatches(x, got[gi])) {
                std::string ex, gt; for (auto &y : e.events) ex += y + " | "; for (size_t y = 0; y < got.size(); y++) gt += got[y] + " | ";
                return fmt("unit %zu: event '%s' expected, got '%s'.\n   expected for the unit: %s\n   whole trace: %s\n   ", u, x.c_str(), gi < got.size() ? got[gi].c_str() : "(end)", ex.c_str(), gt.c_str()) + describe(c);
            }
            gi++;
        }
        if (!e.errors.empty()) anyErr = true;
        if (labels) {
            for (int code : e.errors) labels->push_back(fmt("expect%d", code));
            if (e.errors.size() && e.events.size() > 3) labels->push_back("error-after-partial-success");
        }
    }
    if (gi != got.size()) return "more handler/error events than the reference evaluation allows (first extra: " + got[gi] + "): " + describe(c);
    if (ret != !anyErr) return fmt("SCPI_Input returned %d but the message raised %s error: ", (int) ret, anyErr ? "an" : "no") + describe(c);
    if (nt) *nt = interesting;
    return "";
}

static std::string body(Src &s, Ev &ev) {
    PCase c = decode(s);
    bool nt = false; std::vector<std::string> labels;
    std::string m = runCase(c, &nt, &labels);
    ev.eval();
    std::sort(labels.begin(), labels.end()); labels.erase(std::unique(labels.begin(), labels.end()), labels.end());
    for (auto &l : labels) ev.label(l);
    if (c.fullQueue) ev.label("queue-full-before-message");
    if (c.decoy) ev.label("with-second-instrument-interleaved");
    if (nt) { ev.nt(hashStr(describe(c))); if (ev.wantSample()) ev.sample(describe(c)); }
    return m;
}

// explicit regression form: readers=<kind>:<mandatory>:<n>,...  text=<hex>  expect=<event>|<event>|...  ret=<0|1>
static std::string replayEvents(const Replay &r) {
    InstCfg k; k.bufLen = 256; k.queueLen = 16; k.heapLen = 512;
    Cmd cmd; cmd.pattern = "CMD0";
    std::string rs = r.get("readers"); const char *p = rs.c_str();
    while (*p) { int kind, mand, n, used = 0; if (sscanf(p, "%d:%d:%d%n", &kind, &mand, &n, &used) < 3) break; Reader rd; rd.kind = (RKind) kind; rd.mandatory = mand != 0; rd.n = n; cmd.script.readers.push_back(rd); p += used; if (*p == ',') p++; }
    k.cmds.push_back(cmd);
    Inst I(k);
    bool ret = I.input(hexDec(r.get("text")));
    std::string got;
    // 'E:-1xx' in the expectation stands for any command error: the statement asks for "a command error (-1xx)" for malformed data
    bool anyCmdErr = r.get("expect").find("E:-1xx") != std::string::npos;
    for (auto &l : I.trace) if (l[0] == 'H' || l[0] == 'V' || l[0] == 'E') { std::string x = l; if (anyCmdErr && x.compare(0, 2, "E:") == 0) { int code = atoi(x.c_str() + 2); if (code <= -100 && code >= -199) x = "E:-1xx"; } got += (got.empty() ? "" : "|") + x; }
    if (got != r.get("expect")) return "events '" + got + "', expected '" + r.get("expect") + "' for '" + vis(hexDec(r.get("text"))) + "'";
    if ((int) ret != (int) r.num("ret")) return fmt("SCPI_Input returned %d", (int) ret);
    return "";
}

// ---- return value of SCPI_Input when one call carries several messages, an incomplete tail, or overruns the buffer:
// FALSE exactly when it overran the input buffer or the LAST message it executed raised at least one error
static std::string bodyRet(Src &s, Ev &ev) {
    InstCfg k; k.queueLen = 64; k.heapLen = 1024;
    { Cmd c; c.pattern = "OK"; k.cmds.push_back(c); }
    { Cmd c; c.pattern = "ARG"; c.script.readers.push_back(Reader()); k.cmds.push_back(c); }
    { Cmd c; c.pattern = "SILent"; c.script.retOk = false; k.cmds.push_back(c); }
    { Cmd c; c.pattern = "Q?"; OItem it; it.kind = O_I32; it.u = 5; c.script.items.push_back(it); k.cmds.push_back(c); }
    static const struct { const char *text; bool err; } unitsTab[] = {{"OK", false}, {"ARG 1", false}, {"Q?", false}, {"NOSUCH", true}, {"ARG", true}, {"ARG 1,2", true}, {"SIL", true}, {"ARG 'x'", true}, {"OK @", true}, {"", false}};
    int nm = (int) s.range(1, 4);
    std::string call; bool lastErr = false, any = false; std::string shape;
    for (int m = 0; m < nm; m++) {
        int nu = (int) s.range(1, 3); bool err = false;
        for (int u = 0; u < nu; u++) { auto &t = unitsTab[s.range(0, 9)]; call += (u ? ";" : "") + std::string(t.text); err |= t.err; }
        call += s.pick(std::vector<std::string>{"\n", "\r\n"});
        lastErr = err; any = true; shape += err ? 'E' : 'o';
    }
    bool tail = s.prob(1, 3);
    if (tail) { call += s.pick(std::vector<std::string>{"OK", "ARG 1,", "NOSU", "ARG #15ab", " "}); shape += 't'; }
    bool overrun = s.prob(1, 8) && call.size() >= 2;      // a buffer is at least 2 bytes: shorter calls always fit
    k.bufLen = overrun ? std::max((size_t) 2, call.size() - (size_t) s.range(0, std::min(call.size() - 1, (size_t) 3))) : call.size() + 1 + s.range(0, 4);
    int full = s.prob(1, 5) ? (int) s.range(1, 3) : 0;   // queue already full when the call arrives
    if (full) k.queueLen = full;
    Inst I(k);
    if (full) { for (int i = 0; i < full; i++) SCPI_ErrorPush(&I.ctx, (int16_t) (-300 - i)); I.trace.clear(); I.errors.clear(); }
    bool ret = I.input(call);
    ev.eval();
    if (!I.invariant.empty()) return I.invariant;
    if (full) { I.errors.erase(std::remove(I.errors.begin(), I.errors.end(), -350), I.errors.end()); shape += 'F'; }
    bool expect = overrun ? false : !(any && lastErr);
    if (overrun) { if (!(I.errors.size() == 1 && I.errors[0] == -363) || I.handlerCalls) return "a chunk that does not fit (keeping one byte for the NUL) must queue exactly -363 and execute nothing: '" + vis(call) + fmt("' buffer %zu", k.bufLen); shape += 'X'; }
    if (ret != expect) return fmt("SCPI_Input returned %d, expected %d (FALSE iff overrun or the last executed message raised an error) for one call with '", (int) ret, (int) expect) + vis(call) + fmt("' (buffer %zu%s)", k.bufLen, full ? ", queue full before the call" : "");
    ev.label("ret-shape-" + shape);
    if (nm >= 2 || tail || overrun) { ev.nt(hashStr(call + (overrun ? "X" : ""))); if (ev.wantSample()) ev.sample("one SCPI_Input call: '" + vis(call) + "' -> " + (ret ? "TRUE" : "FALSE")); }
    return "";
}

int main(int argc, char **argv) {
    std::vector<Sub> subs;
    subs.push_back({"ret", [](const Opt &o, Ev &ev) { runRandom(o, ev, "ret", 60, o.quick() ? 20000 : 200000, bodyRet); },
                    [](const Replay &r) { auto v = r.choices(); Src s(v); Ev e; return bodyRet(s, e); }});
    subs.push_back({"events", [](const Opt &, Ev &) {}, replayEvents});
    subs.push_back({"rand", [](const Opt &o, Ev &ev) { runRandom(o, ev, "rand", 520, o.quick() ? 30000 : 300000, body); },
                    [](const Replay &r) { auto v = r.choices(); Src s(v); Ev e; return body(s, e); }});
    return mainWith(argc, argv, "C05", subs);
}
