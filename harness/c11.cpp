// C11 - the status byte always equals the summary of the registers behind it.
#include "status_explore.hpp"
using namespace vf;

static std::string chk(const Regs &, const Op &, const Regs &b, Inst &) { return coherence(b); }
static bool ntPred(const Hist &h) { return h.enableAfterEvent; }

static std::string replayOps(const Replay &r) {
    return runWalk(opsDec(r.get("ops")), (int) r.num("queue", 2), chk, nullptr, (int) r.num("mode", 0));
}
static void fail(const Opt &o, Ev &ev, const std::vector<Op> &path, int queue, const std::string &m) {
    failEnum(o, ev, "ops", fmt("queue=%d\nops=%s\n", queue, opsEnc(path).c_str()), m);
}

static void runClosure(const Opt &o, Ev &ev) {
    // quick: one register group at a time (complete); thorough: pairs of groups (complete) and all three with the small value set
    // quick: each register group alone with all 8 value combinations (complete), pairs with 2 values per register;
    // thorough: single groups with every error class, pairs with 4 values per register, all three groups with 2 values
    struct Job { int scope, level, npush, queue; };
    std::vector<Job> jobs;
    if (o.quick()) {
        for (int sc : {1, 2, 4}) jobs.push_back({sc, 2, 3, 2});
        for (int sc : {3, 5, 6}) jobs.push_back({sc, 0, 2, 2});
    } else {
        for (int q : {1, 2, 3}) { jobs.push_back({1, 2, 10, q}); jobs.push_back({2, 2, 3, q}); jobs.push_back({4, 2, 3, q}); }
        for (int sc : {3, 5}) jobs.push_back({sc, 1, 2, 2});
        jobs.push_back({6, 0, 2, 3});
        jobs.push_back({7, 0, 2, 2});
    }
    for (size_t j = 0; j < jobs.size(); j++) {
        if ((int) (j % (size_t) o.workers) != o.worker) continue;
        ExploreStats st; std::vector<Op> path;
        std::string m = closure(jobs[j].scope, jobs[j].level, jobs[j].npush, jobs[j].queue, chk, st, &path, ev, 4000000);
        ev.eval(st.transitions); ev.ntCount(st.nontrivial);
        ev.label(fmt("closure-scope%d-level%d-push%d-q%d-states", jobs[j].scope, jobs[j].level, jobs[j].npush, jobs[j].queue), st.states);
        ev.label("closure-transitions", st.transitions);
        if (!m.empty()) { fail(o, ev, path, jobs[j].queue, m); return; }
        if (!ev.info.count("closure-truncated")) ev.exhaustive[fmt("closure of register-group scope %d (%d values per register, %d error codes) with queue capacity %d: every reachable state x every operation", jobs[j].scope, jobs[j].level == 0 ? 2 : jobs[j].level == 1 ? 4 : 8, jobs[j].npush, jobs[j].queue)] = true;
    }
}
static void runSequences(const Opt &o, Ev &ev) {
    // quick: every sequence of length <= 3 over the 4-values-per-register alphabet; thorough: length <= 4 over that
    // alphabet and length <= 5 over the 2-values-per-register alphabet
    struct Job { int depth, level, npush; };
    std::vector<Job> jobs;
    if (o.quick()) jobs.push_back({3, 1, 4}); else { jobs.push_back({4, 1, 4}); jobs.push_back({5, 0, 2}); }
    for (auto &j : jobs) {
        ExploreStats st; std::vector<Op> path;
        std::string m = sequences(j.depth, j.level, j.npush, chk, st, &path, o.worker, o.workers, ntPred, ev);
        ev.eval(st.transitions); ev.ntCount(st.nontrivial); ev.label(fmt("sequence-steps-depth%d-level%d", j.depth, j.level), st.transitions);
        if (!m.empty()) { fail(o, ev, path, 2, m); return; }
        ev.exhaustive[fmt("every operation sequence of length <= %d over the alphabet of all three register groups (%d values per register, %d error codes) from the initial state", j.depth, j.level == 0 ? 2 : 4, j.npush)] = true;
    }
}
static std::string bodyWalk(Src &s, Ev &ev) {
    int queue = (int) s.range(1, 4);
    std::vector<Op> ops = decodeWalk(s, 200);
    // mode 5 (the control callback POPS an error) is implemented but not generated: between queueing an error and raising the
    // error-available bit the library announces the ESR change, and a callback that empties the queue right there leaves the bit
    // set on an empty queue unless a second, redundant announcement follows - the pinned tree makes one, a stricter (and
    // correct) service-request rule does not (benign/C12-b2); nothing in the statement covers it
    static const int kModes[] = {1, 2, 3, 4, 6};
    int mode = s.prob(1, 3) ? kModes[s.range(0, 4)] : 0;       // what the service-request callback returns / does (status_explore.hpp)
    Hist h;
    std::string m = runWalk(ops, queue, chk, &h, mode);
    if (mode) ev.label(fmt("walk-control-callback-mode-%d", mode));
    ev.eval(ops.size());
    ev.label("walk-ops", ops.size());
    if (h.enableAfterEvent) ev.nt(hashStr(opsEnc(ops)));
    if (h.enableAfterEvent && ev.wantSample()) ev.sample("walk: " + opsText(std::vector<Op>(ops.begin(), ops.begin() + (long) std::min(ops.size(), (size_t) 12))) + (ops.size() > 12 ? "..." : ""));
    return m;
}

int main(int argc, char **argv) {
    std::vector<Sub> subs;
    subs.push_back({"ops", [](const Opt &, Ev &) {}, replayOps});
    subs.push_back({"closure", runClosure, replayOps});
    subs.push_back({"sequences", runSequences, replayOps});
    subs.push_back({"walk", [](const Opt &o, Ev &ev) { runRandom(o, ev, "walk", 650, o.quick() ? 1500 : 60000, bodyWalk); },
                    [](const Replay &r) { auto v = r.choices(); Src s(v); Ev e; return bodyWalk(s, e); }});
    return mainWith(argc, argv, "C11", subs);
}
