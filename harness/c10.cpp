// C10 - the error queue is a bounded FIFO that marks overflow and owns its texts.
// Oracle: reference deque with capacity N (push on full replaces the newest entry by
// -350 without text).  Ownership: strndup/free are wrapped at link time
// (-Wl,--wrap=strndup,--wrap=free): every duplicated text must be released exactly
// once (ASan reports double free / use after free), allocation failures are injected.
#include "fixture.hpp"
#include <deque>
using namespace vf;

#define HAVE_INFO USE_DEVICE_DEPENDENT_ERROR_INFORMATION

// ------------------------------------------------------------- link-time wrappers
extern "C" char *__real_strndup(const char *, size_t);
extern "C" void __real_free(void *);
static int g_failAt = 0;        // fail the k-th duplication (1-based), 0 = never
static int g_dupCount = 0;
static void *g_live[64];
static int g_nlive = 0, g_dupFailed = 0;
static bool g_track = false;
extern "C" char *__wrap_strndup(const char *s, size_t n) {
    if (g_track) {
        g_dupCount++;
        if (g_failAt && g_dupCount == g_failAt) { g_dupFailed++; return nullptr; }
    }
    char *p = __real_strndup(s, n);
    if (g_track && p && g_nlive < 64) g_live[g_nlive++] = p;
    return p;
}
extern "C" void __wrap_free(void *p) {
    if (g_track && p) for (int i = 0; i < g_nlive; i++) if (g_live[i] == p) { g_live[i] = g_live[--g_nlive]; break; }
    __real_free(p);
}

enum QOp { Q_PUSH, Q_PUSHTEXT, Q_PUSHTEXTLEN, Q_POP, Q_CLEAR, Q_ERRQ, Q_COUNTQ, Q_CLS, Q_COUNT };
struct Step { int op; int code; std::string text; size_t len; };
struct QCase { int cap = 2; int failAt = 0; std::vector<Step> steps; bool writePush = false; /* the write callback queues -365 while a response is written */ int backlog = 0; /* errors the application re-queues from its error callback when the queue runs empty */ };

static std::string stepText(const Step &s) {
    switch (s.op) {
        case Q_PUSH: return fmt("push(%d)", s.code);
        case Q_PUSHTEXT: return fmt("push(%d,'%s')", s.code, vis(s.text.substr(0, 20)).c_str()) + (s.text.size() > 20 ? fmt("<%zu>", s.text.size()) : "");
        case Q_PUSHTEXTLEN: return fmt("push(%d,'%s',%zu)", s.code, vis(s.text.substr(0, 20)).c_str(), s.len);
        case Q_POP: return "pop";
        case Q_CLEAR: return "clear";
        case Q_ERRQ: return "SYST:ERR?";
        case Q_COUNTQ: return "SYST:ERR:COUN?";
        case Q_CLS: return "*CLS";
        default: return "count";
    }
}
static std::string caseText(const QCase &c) { std::string s = fmt("capacity=%d failDup=%d%s: ", c.cap, c.failAt, (std::string(c.backlog ? fmt(" backlog=%d (re-queued from the error callback when the queue runs empty)", c.backlog) : "") + (c.writePush ? " write callback queues -365" : "")).c_str()); size_t n = 0; for (auto &st : c.steps) { if (++n > 60) { s += fmt("... (%zu steps)", c.steps.size()); break; } s += stepText(st) + " "; } return s; }
static std::string replayOf(const QCase &c) {
    std::string s = fmt("cap=%d\nfailat=%d\nbacklog=%d\nwritepush=%d\nsteps=", c.cap, c.failAt, c.backlog, (int) c.writePush);
    for (auto &st : c.steps) s += fmt("%d:%d:%zu:%s;", st.op, st.code, st.len, hexEnc(st.text).c_str());
    return s + "\n";
}
static QCase fromReplay(const Replay &r) {
    QCase c; c.cap = (int) r.num("cap", 2); c.failAt = (int) r.num("failat"); c.backlog = (int) r.num("backlog", 0); c.writePush = r.num("writepush", 0) != 0;
    std::string s = r.get("steps"); size_t i = 0;
    while (i < s.size()) {
        size_t e = s.find(';', i); if (e == std::string::npos) break;
        std::string item = s.substr(i, e - i); i = e + 1;
        Step st; char hex[2048] = {0}; unsigned long len = 0;
        if (sscanf(item.c_str(), "%d:%d:%lu:%2047s", &st.op, &st.code, &len, hex) < 3) continue;
        st.len = len; st.text = hexDec(hex); c.steps.push_back(st);
    }
    return c;
}

static const char *describeCode(int code) {
    switch (code) {
#define X(def, val, str) case val: return str;
#define XE X
        LIST_OF_ERRORS
#undef X
#undef XE
        default: return "Unknown error";
    }
}
struct MEntry { int code; bool hasText; std::string text; bool textMayBeMissing; };

struct Hist10 { bool overflowThenRemove = false, wrapped = false; };

static std::string runCase(const QCase &c, Hist10 *h = nullptr) {
    InstCfg k; k.bufLen = 48; k.queueLen = c.cap; k.traceValues = false;
    { Cmd q; q.pattern = "SYSTem:ERRor[:NEXT]?"; q.lib = libIndex("ERRNEXTQ"); k.cmds.push_back(q); }
    { Cmd q; q.pattern = "SYSTem:ERRor:COUNt?"; q.lib = libIndex("ERRCOUNTQ"); k.cmds.push_back(q); }
    { Cmd q; q.pattern = "*CLS"; q.lib = libIndex("CLS"); k.cmds.push_back(q); }
    g_failAt = c.failAt; g_dupCount = 0; g_nlive = 0; g_dupFailed = 0;
    std::string fail;
    {
        if (c.writePush) k.writePushesError = -365;
        Inst I(k);
        I.repush = c.backlog;
        g_track = true;
        std::deque<MEntry> model;
        bool overflowed = false; int pushes = 0;
        bool announced = false;          // an error was announced since the last "queue empty" notification (the library's QMA bit)
        int modelRepushed = 0;
        for (size_t si = 0; si < c.steps.size() && fail.empty(); si++) {
            const Step &st = c.steps[si];
            auto where = [&]() { return fmt(" at step %zu (%s) of [", si, stepText(st).c_str()) + caseText(c) + "]"; };
            I.out.clear(); I.trace.clear();
            bool wasNonEmpty = !model.empty(); int dupFailedBeforeOp = g_dupFailed;
            if (st.op <= Q_PUSHTEXTLEN) announced = true;
            if (st.op <= Q_PUSHTEXTLEN) {
                MEntry e; e.code = st.code; e.hasText = false; e.textMayBeMissing = false;
                int dupBefore = g_dupFailed;
                if (st.op == Q_PUSH) SCPI_ErrorPush(&I.ctx, (int16_t) st.code);
                else {
                    XBuf tb(st.text.size() + 1); memcpy(tb.p, st.text.c_str(), st.text.size() + 1);
                    size_t len = st.op == Q_PUSHTEXTLEN ? st.len : 0;
                    SCPI_ErrorPushEx(&I.ctx, (int16_t) st.code, tb.p, len);
#if HAVE_INFO
                    e.hasText = true;
                    e.text = st.text.substr(0, len ? std::min(len, st.text.size()) : std::min((size_t) 255, st.text.size()));
                    if (g_dupFailed != dupBefore) e.hasText = false;       // storing failed: queued without text
#endif
                }
                (void) dupBefore;
                pushes++;
                if ((int) model.size() == c.cap) { model.back() = MEntry{-350, false, "", false}; overflowed = true; }
                else model.push_back(e);
                if (h && pushes > c.cap && (int) model.size() < pushes) h->wrapped = true;
            } else if (st.op == Q_POP) {
                scpi_error_t e;
                scpi_bool_t ok = SCPI_ErrorPop(&I.ctx, &e);
                MEntry exp = model.empty() ? MEntry{0, false, "", false} : model.front();
                if (!model.empty()) model.pop_front();
                if (h && overflowed) h->overflowThenRemove = true;
                if (!ok) fail = "SCPI_ErrorPop returned FALSE" + where();
                else if (e.error_code != exp.code) fail = fmt("popped code %d, model says %d", (int) e.error_code, exp.code) + where();
#if HAVE_INFO
                else {
                    const char *t = e.device_dependent_info;
                    if (exp.hasText) { if (!(t ? exp.text == t : exp.text.empty())) fail = "popped text '" + vis(t ? t : "(null)") + "', pushed '" + vis(exp.text) + "'" + where(); }
                    else if (t && *t) fail = "popped text '" + vis(t) + "' for an entry that has none" + where();
                    free(e.device_dependent_info);     // the caller owns the popped text (as SCPI_SystemErrorNextQ does)
                }
#endif
            } else if (st.op == Q_CLEAR) { SCPI_ErrorClear(&I.ctx); if (h && overflowed && !model.empty()) h->overflowThenRemove = true; model.clear(); }
            else if (st.op == Q_CLS) { I.input("*CLS\n"); if (h && overflowed && !model.empty()) h->overflowThenRemove = true; model.clear(); }
            else if (st.op == Q_ERRQ) {
                I.input("SYST:ERR?\n");
                MEntry exp = model.empty() ? MEntry{0, false, "", false} : model.front();
                if (!model.empty()) model.pop_front();
                if (h && overflowed) h->overflowThenRemove = true;
                std::string D = describeCode(exp.code), D2;
                if (exp.hasText) { if (exp.text.empty()) D2 = D + ";"; else D += ";" + exp.text; }
                auto enc = [&](const std::string &d) { std::string E; for (char ch : d) { size_t add = ch == '"' ? 2 : 1; if (E.size() + add > 255) break; E += ch; if (ch == '"') E += '"'; } return fmt("%d,\"", exp.code) + E + "\"\r\n"; };
                if (I.out != enc(D) && (D2.empty() || I.out != enc(D2))) fail = "SYST:ERR? printed '" + vis(I.out) + "', expected '" + vis(enc(D)) + "'" + where();
            } else if (st.op == Q_COUNTQ) {
                I.input("SYST:ERR:COUN?\n");
                if (I.out != fmt("%zu\r\n", model.size())) fail = "SYST:ERR:COUN? printed '" + vis(I.out) + fmt("', model has %zu", model.size()) + where();
            }
            // the queue ran empty in this operation: the library says so once (callback with 0), and the application re-queues
            if (st.op > Q_PUSHTEXTLEN && st.op != Q_COUNTQ && model.empty() && announced && (wasNonEmpty || st.op == Q_CLEAR || st.op == Q_CLS)) {
                announced = false;
                if (modelRepushed < c.backlog) {
                    modelRepushed++;
                    MEntry e; e.code = -330 - modelRepushed; e.textMayBeMissing = false; e.hasText = false;
#if HAVE_INFO
                    e.hasText = g_dupFailed == dupFailedBeforeOp; e.text = fmt("again%d", modelRepushed);
#endif
                    model.push_back(e); announced = true;
                }
            }
            // the error the transport queued while the response of this query was being written arrives after everything above
            if (c.writePush && (st.op == Q_ERRQ || st.op == Q_COUNTQ)) {
                if ((int) model.size() == c.cap) { model.back() = MEntry{-350, false, "", false}; overflowed = true; }
                else model.push_back(MEntry{-365, false, "", false});
                announced = true;
            }
            (void) dupFailedBeforeOp; (void) wasNonEmpty;
            if (fail.empty() && SCPI_ErrorCount(&I.ctx) != (int) model.size()) fail = fmt("SCPI_ErrorCount is %d, model has %zu", (int) SCPI_ErrorCount(&I.ctx), model.size()) + where();
            if (fail.empty() && !I.invariant.empty()) fail = I.invariant + where();
        }
        // final clear: everything still stored must be released
        I.repush = 0;
        SCPI_ErrorClear(&I.ctx);
        if (fail.empty() && SCPI_ErrorCount(&I.ctx) != 0) fail = "queue not empty after SCPI_ErrorClear: " + caseText(c);
        g_track = false;
        if (fail.empty() && g_nlive != 0) fail = fmt("%d stored text(s) never released (leak) after the final clear: ", g_nlive) + caseText(c);
    }
    g_track = false; g_failAt = 0;
    return fail;
}

// ---- exhaustive: all sequences up to length L over a 7-letter alphabet, every fault position
static Step letter(int l) {
    switch (l) {
        case 0: return {Q_PUSH, -100, "", 0};
        case 1: return {Q_PUSHTEXT, -200, "alpha", 0};
        case 2: return {Q_PUSHTEXTLEN, 300, "be\"ta;x", 4};
        case 3: return {Q_POP, 0, "", 0};
        case 4: return {Q_CLEAR, 0, "", 0};
        case 5: return {Q_ERRQ, 0, "", 0};
        default: return {Q_COUNTQ, 0, "", 0};
    }
}
static QCase g_cur;
static std::string lazyCur(const void *) { return "sub=seq\n" + replayOf(g_cur); }
static void runEnum(const Opt &o, Ev &ev) {
    int maxLen = o.quick() ? 6 : 8;
    armLazy(lazyCur, nullptr);
    uint64_t idx = 0;
    for (int len = 1; len <= maxLen; len++) {
        uint64_t total = 1; for (int i = 0; i < len; i++) total *= 7;
        for (uint64_t kx = 0; kx < total; kx++) {
            if ((idx++ % (uint64_t) o.workers) != (uint64_t) o.worker) continue;
            QCase c; uint64_t x = kx; int dups = 0;
            for (int i = 0; i < len; i++) { c.steps.push_back(letter((int) (x % 7))); if (x % 7 == 1 || x % 7 == 2) dups++; x /= 7; }
#if !HAVE_INFO
            dups = 0;
#endif
            for (int cap = 1; cap <= 4; cap++) for (int f = 0; f <= dups; f++) {
                c.cap = cap; c.failAt = f; g_cur = c;
                Hist10 h;
                std::string m = runCase(c, &h);
                ev.eval();
                if (h.overflowThenRemove || h.wrapped) { ev.ntCount(); if (len == 5 && ev.wantSample()) ev.sample(caseText(c)); }
                if (!m.empty()) { failEnum(o, ev, "seq", replayOf(c), m); if (ev.failures.size() >= 4) return; }
            }
        }
    }
    disarmLazy();
    ev.exhaustive[fmt("every operation sequence of length <= %d over {push, push+text, push+text+len, pop, clear, SYST:ERR?, SYST:ERR:COUN?} x capacities 1..4 x failure of every single text duplication", maxLen)] = true;
}

// ---- random long histories
// ---- soak: one long scheduled history per capacity (no randomness: a fixed push/pop rhythm that keeps the queue 1..3 deep, a
// text on every third push, an overflow burst every 1000 pushes), long enough for any 16-bit index, counter or count to wrap
static QCase soakCase(int cap, int pushes) {
    QCase c; c.cap = cap;
    int depth = 0;
    for (int i = 0; i < pushes; i++) {
        Step st; st.len = 0; st.code = (i % 30000) + 1;
        if (i % 3 == 0) { st.op = Q_PUSHTEXT; st.text = fmt("t%d", i); } else st.op = Q_PUSH;
        c.steps.push_back(st); if (depth < cap) depth++;
        bool burst = (i % 1000) >= 990;                       // let the queue overflow now and then
        int want = burst ? cap : std::min(cap, 1 + (i % 3));
        while (depth > want || (depth == cap && !burst && cap == 1)) { Step p; p.len = 0; p.code = 0; p.op = (i % 5 == 0) ? Q_ERRQ : Q_POP; c.steps.push_back(p); depth--; if (depth == 0) break; }
        if (i % 4096 == 4095) { Step q; q.len = 0; q.code = 0; q.op = Q_COUNTQ; c.steps.push_back(q); }
    }
    return c;
}
static void runSoak(const Opt &o, Ev &ev) {
    static const int caps[] = {1, 2, 3, 4, 5, 6, 7, 12, 16, 17};
    int pushes = o.quick() ? 70000 : 400000;
    for (size_t i = 0; i < sizeof caps / sizeof caps[0]; i++) {
        if ((int) (i % (size_t) o.workers) != o.worker) continue;
        armCase(fmt("sub=soak\ncap=%d\npushes=%d\n", caps[i], pushes));
        QCase c = soakCase(caps[i], pushes);
        Hist10 h;
        std::string m = runCase(c, &h);
        ev.eval(); ev.ntCount(); ev.label("soak-steps", c.steps.size());
        if (ev.wantSample()) ev.sample(fmt("soak: capacity %d, %d pushes, %zu steps", caps[i], pushes, c.steps.size()));
        if (!m.empty()) failEnum(o, ev, "soak", fmt("cap=%d\npushes=%d\n", caps[i], pushes), m);
    }
    disarmCase();
}

static std::string expandText(uint32_t seed, size_t len) {
    std::string t; uint64_t x = splitmix(seed);
    for (size_t i = 0; i < len; i++) { if ((i & 7) == 0) x = splitmix(x); unsigned ch = (unsigned) (x >> ((i & 7) * 8)) & 0x7f; if (ch == 0) ch = '"'; t += (char) ch; }
    return t;
}
static QCase decode(Src &s, int maxOps) {
    QCase c; c.cap = (int) s.range(1, 4);
    int n = (int) s.range(1, (uint64_t) maxOps);
    int texts = 0;
    for (int i = 0; i < n; i++) {
        Step st; st.len = 0; st.code = 0;
        st.op = (int) s.weighted({4, 5, 3, 5, 1, 3, 1, 1, 1});
        if (st.op <= Q_PUSHTEXTLEN) st.code = s.prob(1, 2) ? s.irange(-32768, 32767) : (int) s.pick(std::vector<int>{-100, -113, -222, -350, 1, 0});
        if (st.op == Q_PUSHTEXT || st.op == Q_PUSHTEXTLEN) {
            size_t len = s.prob(1, 5) ? s.range(0, 300) : s.range(0, 12);
            st.text = expandText(s.next(), len); texts++;
            if (st.op == Q_PUSHTEXTLEN) st.len = st.text.empty() ? 0 : s.range(1, st.text.size());
        }
        c.steps.push_back(st);
    }
    c.failAt = s.prob(1, 2) && texts ? (int) s.range(1, (uint64_t) texts) : 0;
    c.backlog = s.prob(1, 4) ? (int) s.range(1, 3) : 0;
    c.writePush = s.prob(1, 5);
    return c;
}
static int g_maxOps = 300;
static std::string body(Src &s, Ev &ev) {
    QCase c = decode(s, g_maxOps);
    Hist10 h;
    std::string m = runCase(c, &h);
    ev.eval();
    ev.label("random-ops", c.steps.size());
    if (h.overflowThenRemove) ev.label("overflow-then-pop-or-clear");
    if (h.wrapped) ev.label("ring-wrapped");
    if (c.failAt) ev.label("with-injected-allocation-failure");
    if (c.backlog) ev.label("application-requeues-from-error-callback");
    ev.label("duplications-made-to-fail", (uint64_t) g_dupFailed);
    if (h.overflowThenRemove || h.wrapped) ev.nt(hashStr(replayOf(c)));
    if ((h.overflowThenRemove || h.wrapped) && ev.wantSample()) { QCase d = c; if (d.steps.size() > 14) d.steps.resize(14); ev.sample("random: " + caseText(d) + (c.steps.size() > 14 ? "..." : "")); }
    return m;
}

int main(int argc, char **argv) {
    std::vector<Sub> subs;
    auto replaySeq = [](const Replay &r) { return runCase(fromReplay(r)); };
    subs.push_back({"seq", [](const Opt &, Ev &) {}, replaySeq});
    subs.push_back({"enum", runEnum, replaySeq});
    subs.push_back({"rand", [](const Opt &o, Ev &ev) { g_maxOps = 300; runRandom(o, ev, "rand", 1300, o.quick() ? 1500 : 6000, body); },
                    [](const Replay &r) { g_maxOps = 300; auto v = r.choices(); Src s(v); Ev e; return body(s, e); }});
    subs.push_back({"soak", runSoak, [](const Replay &r) { return runCase(soakCase((int) r.num("cap", 3), (int) r.num("pushes", 70000))); }});
    subs.push_back({"long", [](const Opt &o, Ev &ev) { g_maxOps = 10000; g_shrinkBudget = 1500; runRandom(o, ev, "long", 41000, o.quick() ? 12 : 150, body); },
                    [](const Replay &r) { g_maxOps = 10000; auto v = r.choices(); Src s(v); Ev e; return body(s, e); }});
    return mainWith(argc, argv, "C10", subs);
}
