// C16 - floating-point text keeps the promised number of significant digits.
// printf build: text must equal libstdc++'s Ryu-based std::to_chars(general, 15|6)
// (independent of glibc printf).  USE_CUSTOM_DTOSTRE build: for every precision the
// text must be within one unit of the last requested digit of the true value (exact
// __int128 arithmetic on digit strings), have %g shape, and keep NaN/inf spellings.
#include "fixture.hpp"
#include <charconv>
using namespace vf;

static std::string toCharsGeneral(double v, int prec) {
    char b[64];
    auto r = std::to_chars(b, b + sizeof b, v, std::chars_format::general, prec);
    return std::string(b, r.ptr);
}
static std::string nonFinite(double v) {
    bool neg = std::signbit(v);
    if (std::isnan(v)) return neg ? "-nan" : "nan";
    return neg ? "-inf" : "inf";
}

// decimal view of a text: sign, digit string without leading zeros, exponent of the LAST digit
struct Dec { bool ok = false, neg = false; std::string digits; int lastExp = 0; bool zero = true; int leadExp = 0; };
static Dec parseDec(const std::string &t) {
    Dec d;
    size_t i = 0;
    if (i < t.size() && (t[i] == '-' || t[i] == '+' || t[i] == ' ')) { d.neg = t[i] == '-'; i++; }
    std::string ds; int frac = 0; bool seenPoint = false, any = false;
    for (; i < t.size() && (isdigit((unsigned char) t[i]) || t[i] == '.'); i++) {
        if (t[i] == '.') { if (seenPoint) return d; seenPoint = true; continue; }
        ds += t[i]; any = true; if (seenPoint) frac++;
    }
    if (!any) return d;
    int ex = 0;
    if (i < t.size()) {
        if (t[i] != 'e' && t[i] != 'E') return d;
        char *e; ex = (int) strtol(t.c_str() + i + 1, &e, 10);
        if (*e || e == t.c_str() + i + 1) return d;
    }
    size_t nz = ds.find_first_not_of('0');
    d.ok = true;
    d.lastExp = ex - frac;
    if (nz == std::string::npos) { d.zero = true; d.digits = "0"; return d; }
    d.zero = false;
    d.digits = ds.substr(nz);
    d.leadExp = d.lastExp + (int) d.digits.size() - 1;
    return d;
}
typedef __int128 i128;
static bool scaled(const Dec &d, int commonExp, i128 &out) {   // value / 10^commonExp as integer (must be exact)
    int sh = d.lastExp - commonExp;
    if (sh < 0 || (int) d.digits.size() + sh > 37) return false;
    i128 v = 0;
    for (char c : d.digits) v = v * 10 + (c - '0');
    while (sh--) v *= 10;
    out = d.neg ? -v : v;
    return true;
}

// within `units` units of the p-th significant digit of the true value (true value from 20 correct digits)
static std::string checkNear(double v, const std::string &text, int prec, int unitsNum, int unitsDen) {
    Dec t = parseDec(text);
    if (!t.ok) return "text is not a decimal number: '" + text + "'";
    if (v == 0) return t.zero ? "" : "zero printed as '" + text + "'";
    char b[64];
    auto r = std::to_chars(b, b + sizeof b, v, std::chars_format::scientific, 19);
    Dec tv = parseDec(std::string(b, r.ptr));
    if (t.zero) return "non-zero value printed as '" + text + "'";
    if (t.neg != tv.neg) return "sign differs: '" + text + "'";
    if (abs(t.leadExp - tv.leadExp) > 1) return fmt("magnitude differs: '%s' for true value %s", text.c_str(), std::string(b, r.ptr).c_str());
    int common = std::min(tv.lastExp, t.lastExp);
    i128 a, c;
    if (!scaled(t, common, a) || !scaled(tv, common, c)) return "cannot compare '" + text + "' exactly";
    i128 unit = 1;
    int ue = tv.leadExp - (prec - 1) - common;
    if (ue < 0) return "";   // the text has (many) more digits than requested and agrees beyond the unit
    for (int i = 0; i < ue; i++) unit *= 10;
    i128 diff = a > c ? a - c : c - a;
    if (diff * unitsDen > unit * unitsNum) return fmt("'%s' is more than %d/%d unit of digit %d away from the true value %s", text.c_str(), unitsNum, unitsDen, prec, std::string(b, r.ptr).c_str());
    return "";
}

static bool gShape(const std::string &t) {    // -?d+(.d+)?(e[+-]dd+)?
    size_t i = 0, n = t.size();
    if (i < n && t[i] == '-') i++;
    size_t d0 = i; while (i < n && isdigit((unsigned char) t[i])) i++;
    if (i == d0) return false;
    if (i < n && t[i] == '.') { i++; size_t f0 = i; while (i < n && isdigit((unsigned char) t[i])) i++; if (i == f0) return false; }
    if (i < n && t[i] == 'e') { i++; if (i >= n || (t[i] != '+' && t[i] != '-')) return false; i++; size_t e0 = i; while (i < n && isdigit((unsigned char) t[i])) i++; if (i - e0 < 2) return false; }
    return i == n;
}

static uint64_t g_exclD1 = 0;
struct FC { double v; bool isFloat; int prec; int flags; int api; };   // api 0: *ToStr, 1: Result* via context, 2: SCPI_dtostre directly
static std::string describe(const FC &c) { return fmt("v=%s (%.17g) float=%d prec=%d flags=%d api=%d", bitsD(c.v).c_str(), c.v, (int) c.isFloat, c.prec, c.flags, c.api); }
static std::string replayOf(const FC &c) { return fmt("v=%s\nfloat=%d\nprec=%d\nflags=%d\napi=%d\n", bitsD(c.v).c_str(), (int) c.isFloat, c.prec, c.flags, c.api); }

static std::string libText(const FC &c) {
    char buf[64];
    memset(buf, 0x7e, sizeof buf);
    if (c.api == 2) { SCPI_dtostre(c.v, buf, sizeof buf, (unsigned char) c.prec, (unsigned char) c.flags); return buf; }
    if (c.api == 0) {
        size_t r = c.isFloat ? SCPI_FloatToStr((float) c.v, buf, sizeof buf) : SCPI_DoubleToStr(c.v, buf, sizeof buf);
        if (r != strlen(buf)) return "<return value differs from strlen>";
        return buf;
    }
    InstCfg fc; fc.bufLen = 16; fc.queueLen = 2;
    Cmd q; q.pattern = "Q?"; OItem it; it.kind = c.isFloat ? O_F32 : O_F64; it.d = c.v; q.script.items.push_back(it); fc.cmds.push_back(q);
    Inst F(fc);
    F.input("Q?\n");
    std::string o = F.out;
    if (o.size() >= 2 && o.substr(o.size() - 2) == "\r\n") o.resize(o.size() - 2);
    return o;
}

static std::string checkOne(const FC &c, bool *nt = nullptr) {
    armCase("sub=one\n" + replayOf(c));
    std::string t = libText(c);
    double v = c.isFloat ? (double) (float) c.v : c.v;
    if (nt) *nt = false;
#if defined(VF_LIB_USES_DTOSTRE) && VF_LIB_USES_DTOSTRE
    if (v == 0 && std::signbit(v)) v = 0.0;     // a C90 library has no signbit(): minus zero is formatted as zero
#endif
#ifndef VF_LIB_USES_DTOSTRE
#define VF_LIB_USES_DTOSTRE 0      /* set by the "ansi" configuration: the library, compiled as C90, finds no snprintf and formats with SCPI_dtostre */
#endif
    bool custom = USE_CUSTOM_DTOSTRE || VF_LIB_USES_DTOSTRE || c.api == 2;
    int prec = c.api == 2 ? c.prec : (c.isFloat ? 6 : 15);
    if (!std::isfinite(v)) {
        std::string exp = nonFinite(v);
        if (c.api == 2) {
            if (c.flags & 1) for (auto &ch : exp) ch = (char) toupper(ch);
            if (!std::signbit(v) && !std::isnan(v)) { if (c.flags & 4) exp = "+" + exp; else if (c.flags & 2) exp = " " + exp; }
        }
        // a C90 library has no signbit(): the sign of a NaN is not seen there (the spelling is fixed, its sign is not a value)
        if (VF_LIB_USES_DTOSTRE && std::isnan(v) && exp.size() > 1 && exp[0] == '-' && t == exp.substr(1)) return "";
        if (t != exp) return "non-finite value printed as '" + t + "', expected '" + exp + "': " + describe(c);
        return "";
    }
    std::string ref = toCharsGeneral(v, prec);
    if (nt) {   // needs rounding at this precision, or has an interior zero digit
        char b[64]; auto r = std::to_chars(b, b + sizeof b, v, std::chars_format::scientific, 19);
        Dec full = parseDec(std::string(b, r.ptr)); Dec rd = parseDec(ref);
        *nt = (full.digits.find_first_not_of('0', (size_t) prec) != std::string::npos && (int) full.digits.size() > prec) || rd.digits.find('0') != std::string::npos;
    }
    if (!custom) {
        if (t != ref) return "printed '" + t + "', expected '" + ref + "' (%." + std::to_string(prec) + "g): " + describe(c);
        std::string m = checkNear(v, t, prec, 1, 2);
        if (!m.empty()) return m + ": " + describe(c);
        return "";
    }
    std::string body = t;
    if (c.api == 2 && !body.empty() && (body[0] == '+' || body[0] == ' ') && !std::signbit(v)) {
        if (((c.flags & 4) && body[0] == '+') || (!(c.flags & 4) && (c.flags & 2) && body[0] == ' ')) body = body.substr(1);
    }
    if (!gShape(body)) return "text '" + t + "' does not have %g shape: " + describe(c);
    std::string m = checkNear(v, body, prec, 1, 1);
    if (!m.empty() && knownActive("C16-F1")) {
        // listed finding C16-F1: the built-in formatter generates digits in double arithmetic.  Class: off by more
        // than 1 and at most 8 units of the last requested digit at precisions 12..15; at lower precisions only a
        // hair over one unit (<= 1.001) for values that sit on a digit boundary.  Anything worse is still reported.
        std::string m8 = prec >= 12 ? checkNear(v, body, prec, 8, 1) : checkNear(v, body, prec, 1001, 1000);
        if (m8.empty()) { g_exclD1++; return ""; }
        m = m8;
    }
    if (!m.empty()) return m + " (%." + std::to_string(prec) + "g would give '" + ref + "'): " + describe(c);
    return "";
}

static double genDouble(Src &s, bool asFloat, int prec) {
    double v;
    switch (s.weighted({4, 2, 2, 3, 2, 1, 1})) {
        case 0: { if (asFloat) { uint32_t b = s.next(); float f; memcpy(&f, &b, 4); v = f; } else { uint64_t b = s.u64(); memcpy(&v, &b, 8); } break; }
        case 1: { int e = s.irange(asFloat ? -45 : -323, asFloat ? 38 : 308); char b[32]; snprintf(b, sizeof b, "1e%d", e); v = strtod(b, nullptr); break; }
        case 2: { int e = s.irange(asFloat ? -40 : -310, asFloat ? 36 : 306); char b[32]; snprintf(b, sizeof b, "%de%d", (int) s.range(1, 999), e); v = strtod(b, nullptr); break; }
        case 3: { // value with a zero digit at a chosen position and a tail
            char b[64]; int n = 0; int zpos = (int) s.range(1, 15);
            b[n++] = (char) ('1' + s.range(0, 8)); b[n++] = '.';
            for (int i = 1; i < 17; i++) b[n++] = (i == zpos || (i == zpos + 1 && s.coin())) ? '0' : (char) ('0' + s.range(0, 9));
            snprintf(b + n, sizeof b - (size_t) n, "e%d", s.irange(asFloat ? -30 : -300, asFloat ? 30 : 300)); v = strtod(b, nullptr); break;
        }
        case 4: { // both sides of a d.ddd5 rounding boundary at the given precision
            char b[64]; int n = 0; b[n++] = (char) ('1' + s.range(0, 8)); b[n++] = '.';
            for (int i = 1; i < prec; i++) b[n++] = (char) ('0' + s.range(0, 9));
            static const char *tails[] = {"5", "4999999999", "5000000001", "49", "51", "9999999999", "0000000001"};
            n += snprintf(b + n, sizeof b - (size_t) n, "%se%d", tails[s.range(0, 6)], s.irange(asFloat ? -30 : -300, asFloat ? 30 : 300)); v = strtod(b, nullptr); break;
        }
        case 5: { if (asFloat) { uint32_t b = (uint32_t) s.range(0, 0x7fffff); float f; memcpy(&f, &b, 4); v = f; } else { uint64_t b = s.u64() & 0xfffffffffffffULL; memcpy(&v, &b, 8); } break; }
        default: { static const double sp[] = {0.0, -0.0, 1.0, INFINITY, -INFINITY, NAN, -NAN, 0.001, 0.0001, 0.00001, 123456789012345.0, 1e15, 1e16, 999999.5, 0.5}; v = sp[s.range(0, 14)]; break; }
    }
    if (s.prob(1, 4)) v = -v;
    if (asFloat) v = (double) (float) v;
    return v;
}

static FC decode(Src &s) {
    FC c;
    c.isFloat = s.coin();
    c.api = (int) s.weighted({3, 1, 3});
    c.prec = (int) s.range(1, 15);
    c.flags = (int) s.range(0, 7);
    if (c.api != 2) { c.prec = c.isFloat ? 6 : 15; c.flags = 0; } else c.isFloat = false;
    c.v = genDouble(s, c.isFloat, c.prec);
    return c;
}
static std::string body(Src &s, Ev &ev) {
    FC c = decode(s);
    bool nt = false;
    std::string m = checkOne(c, &nt);
    // the same value negated and once more, back to back: a conversion must not depend on the one before it
    if (m.empty() && s.prob(1, 3)) { FC n = c; n.v = -c.v; m = checkOne(n); if (m.empty()) m = checkOne(c); if (m.empty()) { n.v = -fabs(c.v); m = checkOne(n); } if (m.empty()) { n.v = fabs(c.v); m = checkOne(n); } if (!m.empty()) m += " [as part of the sequence v, -v, v, -|v|, +|v| of consecutive conversions]"; ev.label("negated-pair-sequences"); }
    ev.eval();
    ev.label(fmt("api%d-%s", c.api, c.isFloat ? "float" : "double"));
    if (nt) ev.nt(hashStr(replayOf(c)));
    if (ev.wantSample()) ev.sample(describe(c) + " -> '" + libText(c) + "'");
    if (!ev.frozen) ev.excluded["C16-F1 built-in formatter digit drift (1..8 units at precision 12..15, <= 1.001 units below)"] = g_exclD1;
    return m;
}

// powers of ten and k*10^e for every exponent, every precision
static void runGrid(const Opt &o, Ev &ev) {
    uint64_t idx = 0;
    for (int e = -323; e <= 308; e++) for (int k : {1, 2, 5, 9, 12, 105, 999}) {
        if ((idx++ % o.workers) != (uint64_t) o.worker) continue;
        char b[32]; snprintf(b, sizeof b, "%de%d", k, e);
        double v = strtod(b, nullptr);
        if (!std::isfinite(v)) continue;
        for (int sign = 0; sign < 2; sign++) {
            std::vector<FC> cs;
            cs.push_back({sign ? -v : v, false, 15, 0, 0});
            if (fabs(v) < 3e38 && fabs(v) > 1e-45) cs.push_back({sign ? -v : v, true, 6, 0, 0});
            for (int p = 1; p <= 15; p++) cs.push_back({sign ? -v : v, false, p, 0, 2});
            for (auto &c : cs) {
                bool nt = false;
                std::string m = checkOne(c, &nt);
                ev.eval();
                if (nt) ev.ntCount();
                if (!m.empty()) { failEnum(o, ev, "one", replayOf(c), m); if (ev.failures.size() >= 5) return; }
            }
        }
    }
    ev.excluded["C16-F1 built-in formatter digit drift (1..8 units at precision 12..15, <= 1.001 units below)"] = g_exclD1;
    ev.exhaustive["k*10^e for k in {1,2,5,9,12,105,999}, every e in -323..308, both signs: *ToStr and SCPI_dtostre at every precision 1..15"] = true;
}

int main(int argc, char **argv) {
    std::vector<Sub> subs;
    auto replayOne = [](const Replay &r) {
        FC c; uint64_t b = strtoull(r.get("v", "0").c_str(), nullptr, 16); memcpy(&c.v, &b, 8);
        c.isFloat = r.num("float") != 0; c.prec = (int) r.num("prec", 15); c.flags = (int) r.num("flags"); c.api = (int) r.num("api");
        return checkOne(c);
    };
    subs.push_back({"one", [](const Opt &, Ev &) {}, replayOne});
    subs.push_back({"grid", runGrid, replayOne});
    subs.push_back({"rand", [](const Opt &o, Ev &ev) { runRandom(o, ev, "rand", 40, o.quick() ? 150000 : 1500000, body); },
                    [](const Replay &r) { auto v = r.choices(); Src s(v); Ev e; return body(s, e); }});
    return mainWith(argc, argv, "C16", subs);
}
