// C20 - the allocation-free build stores error texts intact or not at all.
// Only meaningful in the static-heap configuration (USE_MEMORY_ALLOCATION_FREE=0).
// Oracle: reference queue in which every entry's text is "the pushed text or
// nothing"; after the queue has drained a text of heap size - 1 must be stored.
#include "fixture.hpp"
#include <deque>
using namespace vf;

#if !(USE_DEVICE_DEPENDENT_ERROR_INFORMATION && !USE_MEMORY_ALLOCATION_FREE)
#error "c20 must be built in the static-heap configuration"
#endif

enum HOp { H_PUSHTEXT, H_PUSH, H_ERRQ, H_POP, H_CLEAR, H_POPHOLD, H_RELEASE };   // POPHOLD: pop and keep the text (a display that shows it), RELEASE: give the oldest kept text back
struct HStep { int op; size_t len; };
struct HCase { int cap = 2; size_t heap = 8; std::vector<HStep> steps; };

static std::string uniqueText(size_t stepIndex, size_t len) {   // every text of a history is recognisable
    std::string t;
    for (size_t j = 0; j < len; j++) t += (char) ('A' + (stepIndex * 5 + j * (stepIndex % 3 + 1)) % 26 + ((j & 1) ? 32 : 0));
    if (len) t[0] = (char) ('0' + stepIndex % 10);
    return t;
}
static std::string stepText(const HStep &s, size_t i) {
    switch (s.op) {
        case H_PUSHTEXT: return fmt("push('%s')", uniqueText(i, s.len).substr(0, 16).c_str()) + (s.len > 16 ? fmt("<%zu>", s.len) : "");
        case H_PUSH: return "push()";
        case H_ERRQ: return "SYST:ERR?";
        case H_POP: return "pop";
        case H_POPHOLD: return "pop-and-keep";
        case H_RELEASE: return "release-kept";
        default: return "clear";
    }
}
static std::string caseText(const HCase &c) { std::string s = fmt("queue=%d heap=%zu: ", c.cap, c.heap); for (size_t i = 0; i < c.steps.size(); i++) s += stepText(c.steps[i], i) + " "; return s; }
static std::string replayOf(const HCase &c) { std::string s = fmt("cap=%d\nheap=%zu\nsteps=", c.cap, c.heap); for (auto &st : c.steps) s += fmt("%d:%zu;", st.op, st.len); return s + "\n"; }
static HCase fromReplay(const Replay &r) {
    HCase c; c.cap = (int) r.num("cap", 2); c.heap = (size_t) r.num("heap", 8);
    std::string s = r.get("steps"); const char *p = s.c_str();
    while (*p) { HStep st; unsigned long l; int n = 0; if (sscanf(p, "%d:%lu;%n", &st.op, &l, &n) < 2 || !n) break; st.len = l; c.steps.push_back(st); p += n; }
    return c;
}

struct MEnt { int code; std::string text; bool mustHaveText; bool mayHaveText; };
struct Hist20 { bool wrapStored = false, rollback = false; int stored = 0; };

static std::string runCase(const HCase &c, Hist20 *h = nullptr) {
    InstCfg k; k.bufLen = 32; k.queueLen = c.cap; k.heapLen = c.heap; k.traceValues = false;
    { Cmd q; q.pattern = "SYSTem:ERRor[:NEXT]?"; q.lib = libIndex("ERRNEXTQ"); k.cmds.push_back(q); }
    Inst I(k);
    std::deque<MEnt> model;
    struct Held { char *ptr; std::string text; };
    std::deque<Held> held;           // texts the application popped and has not yet given back: they stay its own until it does
    auto readHeld = [&](char *p) { const char *p2 = nullptr; size_t l1 = 0, l2 = 0; std::string g; if (scpiheap_get_parts(&I.ctx.error_info_heap, p, &l1, &p2, &l2)) g = std::string(p, l1) + (p2 ? std::string(p2, l2) : std::string()); return g; };
    std::string fail;
    auto checkText = [&](const MEnt &e, bool has, const std::string &got, const std::function<std::string()> &whereFn) {
#define where whereFn()
        if (has) {
            if (!e.mayHaveText) fail = "entry pushed without text reports text '" + vis(got) + "'" + where;
            else if (got != e.text) fail = "entry reports text '" + vis(got) + "' but was pushed with '" + vis(e.text) + "' (truncated, merged or foreign)" + where;
            else if (h) h->stored++;
        } else if (e.mustHaveText) fail = "text '" + vis(e.text) + "' was not stored although the queue was empty and it fits the heap" + where;
#undef where
    };
    for (size_t si = 0; si < c.steps.size() && fail.empty(); si++) {
        const HStep &st = c.steps[si];
        auto whereF = [&]() { return fmt(" at step %zu (%s) of [", si, stepText(st, si).c_str()) + caseText(c) + "]"; };
#define where whereF()
        I.out.clear(); I.trace.clear();
        if (st.op == H_PUSHTEXT || st.op == H_PUSH) {
            MEnt e; e.code = -200 - (int) (si % 50); e.mustHaveText = false; e.mayHaveText = false;
            size_t wrBefore = I.ctx.error_info_heap.wr;
            if (st.op == H_PUSH) SCPI_ErrorPush(&I.ctx, (int16_t) e.code);
            else {
                e.text = uniqueText(si, st.len);
                if (!e.text.empty() && si % 3 == 2) {
                    // explicit length shorter than what lies behind the pointer: the characters after the text are not part of it
                    std::string longer = e.text + "Zz9";
                    XBuf tb(longer.size()); memcpy(tb.p, longer.data(), longer.size());
                    SCPI_ErrorPushEx(&I.ctx, (int16_t) e.code, tb.p, e.text.size());
                } else if (!e.text.empty() && (si & 1)) {
                    // explicit length: the text need not be terminated - an exact-size buffer without NUL
                    XBuf tb(e.text.size()); memcpy(tb.p, e.text.data(), e.text.size());
                    SCPI_ErrorPushEx(&I.ctx, (int16_t) e.code, tb.p, e.text.size());
                } else {
                    XBuf tb(e.text.size() + 1); memcpy(tb.p, e.text.c_str(), e.text.size() + 1);
                    SCPI_ErrorPushEx(&I.ctx, (int16_t) e.code, tb.p, 0);
                }
                e.mayHaveText = !e.text.empty();
                e.mustHaveText = model.empty() && held.empty() && !e.text.empty() && e.text.size() + 1 <= c.heap && e.text.size() <= 255;
                if (h && e.mayHaveText && wrBefore + e.text.size() + 1 > c.heap && e.text.size() + 1 <= c.heap) h->wrapStored = true;   // would wrap if stored
            }
            if ((int) model.size() == c.cap) { model.back() = MEnt{-350, "", false, false}; if (h && st.op == H_PUSHTEXT) h->rollback = true; }
            else model.push_back(e);
        } else if (st.op == H_ERRQ) {
            I.input("SYST:ERR?\n");
            MEnt e = model.empty() ? MEnt{0, "", false, false} : model.front();
            if (!model.empty()) model.pop_front();
            std::string pre = fmt("%d,\"", e.code);
            if (I.out.compare(0, pre.size(), pre) != 0 || I.out.size() < pre.size() + 3 || I.out.substr(I.out.size() - 3) != "\"\r\n") { fail = "SYST:ERR? printed '" + vis(I.out) + "', expected code " + fmt("%d", e.code) + where; break; }
            std::string inner = I.out.substr(pre.size(), I.out.size() - pre.size() - 3);
            size_t semi = inner.find(';');
            std::string got = semi == std::string::npos ? "" : inner.substr(semi + 1);
            // the response is limited to 255 characters: a long text is printed as a prefix (C18's business)
            if (semi != std::string::npos && inner.size() == 255 && e.text.compare(0, got.size(), got) == 0) got = e.text;
            checkText(e, semi != std::string::npos, got, whereF);
        } else if (st.op == H_POP) {
            scpi_error_t er;
            SCPI_ErrorPop(&I.ctx, &er);
            MEnt e = model.empty() ? MEnt{0, "", false, false} : model.front();
            if (!model.empty()) model.pop_front();
            if (er.error_code != e.code) { fail = fmt("popped code %d, model says %d", (int) er.error_code, e.code) + where; break; }
            std::string got; bool has = false;
            if (er.device_dependent_info) {
                const char *p2 = nullptr; size_t l1 = 0, l2 = 0;
                if (scpiheap_get_parts(&I.ctx.error_info_heap, er.device_dependent_info, &l1, &p2, &l2)) { has = true; got = std::string(er.device_dependent_info, l1) + (p2 ? std::string(p2, l2) : std::string()); }
                scpiheap_free(&I.ctx.error_info_heap, er.device_dependent_info, false);
            }
            checkText(e, has, got, whereF);
        } else if (st.op == H_POPHOLD) {
            scpi_error_t er;
            SCPI_ErrorPop(&I.ctx, &er);
            MEnt e = model.empty() ? MEnt{0, "", false, false} : model.front();
            if (!model.empty()) model.pop_front();
            if (er.error_code != e.code) { fail = fmt("popped code %d, model says %d", (int) er.error_code, e.code) + where; break; }
            std::string got; bool has = false;
            if (er.device_dependent_info) { has = true; got = readHeld(er.device_dependent_info); held.push_back({er.device_dependent_info, got}); }
            checkText(e, has, got, whereF);
        } else if (st.op == H_RELEASE) {
            if (!held.empty()) {
                std::string now = readHeld(held.front().ptr);
                if (now != held.front().text) { fail = "a text the application popped and still holds changed from '" + vis(held.front().text) + "' to '" + vis(now) + "' before it was given back" + where; break; }
                scpiheap_free(&I.ctx.error_info_heap, held.front().ptr, false);
                held.pop_front();
            }
        } else { SCPI_ErrorClear(&I.ctx); model.clear(); }
        for (auto &hd : held) if (fail.empty() && readHeld(hd.ptr) != hd.text) fail = "a text the application popped and still holds changed from '" + vis(hd.text) + "' to '" + vis(readHeld(hd.ptr)) + "'" + where;
        if (fail.empty() && SCPI_ErrorCount(&I.ctx) != (int) model.size()) fail = fmt("SCPI_ErrorCount is %d, model has %zu", (int) SCPI_ErrorCount(&I.ctx), model.size()) + where;
        if (fail.empty() && !I.invariant.empty()) fail = I.invariant + where;
        // (write cursor and free count are representation: out-of-heap writes are caught by the exact-size heap buffer)
#undef where
    }
    // drain: the heap must be completely reusable afterwards
    if (fail.empty()) {
        while (!held.empty()) { scpiheap_free(&I.ctx.error_info_heap, held.front().ptr, false); held.pop_front(); }
        SCPI_ErrorClear(&I.ctx);
        if (c.heap >= 2) {
            std::string t = uniqueText(97, c.heap - 1);          // the whole heap: every byte must be available again
            XBuf tb(t.size()); memcpy(tb.p, t.data(), t.size());
            SCPI_ErrorPushEx(&I.ctx, -113, tb.p, t.size());
            scpi_error_t er;
            SCPI_ErrorPop(&I.ctx, &er);
            std::string got;
            if (er.device_dependent_info) {
                const char *p2 = nullptr; size_t l1 = 0, l2 = 0;
                if (scpiheap_get_parts(&I.ctx.error_info_heap, er.device_dependent_info, &l1, &p2, &l2)) got = std::string(er.device_dependent_info, l1) + (p2 ? std::string(p2, l2) : std::string());
                scpiheap_free(&I.ctx.error_info_heap, er.device_dependent_info, false);
            }
            if (er.error_code != -113 || got != t) fail = fmt("after draining the queue a text of %zu characters (heap %zu) is not stored intact: got code %d text '", t.size(), c.heap, (int) er.error_code) + vis(got) + "' after [" + caseText(c) + "]";
        }
    }
    return fail;
}

static HCase g_cur;
static std::string lazyCur(const void *) { return "sub=seq\n" + replayOf(g_cur); }

static void runEnum(const Opt &o, Ev &ev) {
    armLazy(lazyCur, nullptr);
    uint64_t budget = o.quick() ? 400000 : 8000000;     // sequences per (heap, capacity, length)
    uint64_t idx = 0;
    std::string done;
    for (size_t H = 2; H <= 12; H++) {
        size_t letters = H + 1 + 4;        // push with text of length 0..H, push without text, SYST:ERR?, pop, clear
        int maxLen = 1; { uint64_t t = letters; while (t * letters <= budget && maxLen < 8) { t *= letters; maxLen++; } }
        done += fmt("heap %zu: length <= %d; ", H, maxLen);
        for (int cap = 1; cap <= 4; cap++) for (int len = 1; len <= maxLen; len++) {
            uint64_t total = 1; for (int i = 0; i < len; i++) total *= letters;
            for (uint64_t kx = 0; kx < total; kx++) {
                if ((idx++ % (uint64_t) o.workers) != (uint64_t) o.worker) continue;
                HCase c; c.cap = cap; c.heap = H; uint64_t x = kx;
                for (int i = 0; i < len; i++) { size_t l = x % letters; x /= letters; if (l <= H) c.steps.push_back({H_PUSHTEXT, l}); else c.steps.push_back({(int) (l - H), 0}); }
                g_cur = c;
                Hist20 h;
                std::string m = runCase(c, &h);
                ev.eval();
                if ((h.wrapStored && h.stored) || h.rollback) { ev.ntCount(); if (ev.wantSample()) ev.sample(caseText(c)); }
                if (!m.empty()) { failEnum(o, ev, "seq", replayOf(c), m); if (ev.failures.size() >= 4) return; }
            }
        }
    }
    disarmLazy();
    ev.info["c20-enum"] = "all sequences over {push(text of every length 0..heap), push(), SYST:ERR?, pop, clear}, queue capacities 1..4: " + done;
    ev.exhaustive["operation sequences per heap size 2..12 up to the lengths listed under bounds.c20-enum"] = true;
}

static bool g_holdOps = getenv("VF_C20_HOLD") != nullptr;    // exploration only
static HCase decode(Src &s) {
    HCase c; c.cap = (int) s.range(1, 4); c.heap = s.prob(1, 3) ? s.range(2, 15) : s.prob(1, 5) ? s.range(257, 700) : s.range(16, 256);
    int n = (int) s.range(1, 1000);
    int kept = 0;
    for (int i = 0; i < n; i++) {
        HStep st; st.len = 0;
        // pop-and-keep / release-kept are implemented (and replayable) but not generated: the statement quantifies over pops that
        // release at once, and a correct alternative allocator may rely on first-in-first-out release (benign/C20-b1 does); asserting
        // more raised a false alarm on it (DESIGN 11.6)
        st.op = (int) s.weighted({8, 2, 4, 4, 1, g_holdOps ? 1u : 0u, g_holdOps ? 2u : 0u});
        // the ring heap hands out space in the order it gets it back: an application gives a popped text back before it (or
        // anyone) queues the next error with text - what it may do in between is pop, query and clear
        if (st.op == H_PUSHTEXT) while (kept > 0) { c.steps.push_back({H_RELEASE, 0}); kept--; }
        if (st.op == H_POPHOLD) kept++;
        if (st.op == H_RELEASE && kept > 0) kept--;
        // texts pushed with an explicit length (every step whose index is odd or 2 mod 3, see runCase) may be longer than the 255
        // characters an automatic length stops at
        if (st.op == H_PUSHTEXT) st.len = std::min((size_t) ((i & 1) || i % 3 == 2 ? 600 : 255), (size_t) (s.prob(1, 4) ? s.range(0, c.heap) : s.range(0, std::max((size_t) 1, c.heap / 3))));
        c.steps.push_back(st);
    }
    return c;
}
static std::string body(Src &s, Ev &ev) {
    HCase c = decode(s);
    Hist20 h;
    std::string m = runCase(c, &h);
    ev.eval();
    ev.label("random-ops", c.steps.size());
    ev.label("texts-read-back-intact", (uint64_t) h.stored);
    if (h.wrapStored) ev.label("history-with-text-across-heap-end");
    if (h.rollback) ev.label("history-with-overflow-rollback");
    if ((h.wrapStored && h.stored) || h.rollback) ev.nt(hashStr(replayOf(c)));
    if (((h.wrapStored && h.stored) || h.rollback) && ev.wantSample()) { HCase d = c; if (d.steps.size() > 12) d.steps.resize(12); ev.sample("random: " + caseText(d) + (c.steps.size() > 12 ? "..." : "")); }
    return m;
}

int main(int argc, char **argv) {
    std::vector<Sub> subs;
    auto replaySeq = [](const Replay &r) { return runCase(fromReplay(r)); };
    subs.push_back({"seq", [](const Opt &, Ev &) {}, replaySeq});
    subs.push_back({"enum", runEnum, replaySeq});
    subs.push_back({"rand", [](const Opt &o, Ev &ev) { g_shrinkBudget = 3000; runRandom(o, ev, "rand", 2100, o.quick() ? 5000 : 50000, body); },
                    [](const Replay &r) { auto v = r.choices(); Src s(v); Ev e; return body(s, e); }});
    return mainWith(argc, argv, "C20", subs);
}
