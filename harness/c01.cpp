// C01 - rapidcheck-driven twin of the structure-aware libFuzzer target: the same decoder (fuzz_common.hpp, structCase)
// turns a choice sequence into 1..4 grammar-generated, optionally mutated messages, a buffer/queue/heap geometry and a
// chunking, but the choices are generated (and shrunk) by rapidcheck from VERIF_SEED, so this part of the C01 check is a
// pure function of the seed.  Oracle: ASan/UBSan/LSan reports (the death callback writes the replay file), the
// structural invariants of the fixture after every call, and the hang watchdog.
#include "fuzz_common.hpp"
using namespace vf;

static std::string body(Src &s, Ev &ev) {
    static World W = fuzzWorld();
    Inst *I = nullptr; std::string stream;
    std::string bad = structCase(s, W, &I, &stream);
    ev.eval();
    if (!bad.empty()) return bad + " [stream '" + vis(stream.substr(0, 200)) + "']";
    bool nt = I && (I->handlerCalls > 0 || SCPI_ErrorCount(&I->ctx) > 0);
    if (I) {
        ev.label(I->handlerCalls ? "reached-a-handler" : "no-handler");
        bool overrun = false; for (int e : I->errors) if (e == -363) overrun = true;
        if (overrun) ev.label("input-buffer-overrun");
        if (stream.size() > 64) ev.label("stream-longer-than-64-bytes");
        I->drainErrors();
    }
    if (nt) { ev.nt(hashStr(stream)); if (ev.wantSample()) ev.sample("generated stream: '" + vis(stream.substr(0, 120)) + (stream.size() > 120 ? "...'" : "'")); }
    return "";
}

int main(int argc, char **argv) {
    std::vector<Sub> subs;
    subs.push_back({"rand", [](const Opt &o, Ev &ev) { runRandom(o, ev, "rand", 800, o.quick() ? 12000 : 150000, body); },
                    [](const Replay &r) { auto v = r.choices(); Src s(v); Ev e; return body(s, e); }});
    return mainWith(argc, argv, "C01", subs);
}
