// C02 - each message unit runs exactly the first command matching its effective header.
// Oracle: effective headers computed from the written text only (path of the
// preceding unit's effective header), first table entry accepted by the reference
// matcher of C03 (not matchCommand).
#include "gen.hpp"
using namespace vf;

struct Unit { std::string written, eff, lead, params; int matched = -1; std::vector<long long> nums; bool numsKnown = false; std::vector<int> ints; };
struct MCase { std::vector<bool> fails; /* per table entry: the handler reads its parameters and then returns SCPI_RES_ERR */ std::vector<GenPattern> table; std::vector<int> nReaders; std::vector<Unit> units; std::string text; std::string term; bool decoy = false; };

static std::string pathOf(const std::string &eff) { size_t c = eff.rfind(':'); return c == std::string::npos ? "" : eff.substr(0, c + 1); }

static MCase decode(Src &s) {
    MCase c;
    c.table = genTable(s);
    for (size_t i = 0; i < c.table.size(); i++) c.nReaders.push_back((int) s.weighted({5, 3, 2}));
    // which unit ran, with which path, must not depend on how the unit before it ended
    for (size_t i = 0; i < c.table.size(); i++) c.fails.push_back(s.prob(1, 5));
    std::vector<RefPattern> refs;
    for (auto &p : c.table) refs.push_back(refParsePattern(p.text));
    int nu = s.prob(1, 400) ? (int) s.range(257, 300) : (int) s.weighted({1, 3, 3, 2, 1, 1}) + 1;   // now and then more units than 8 bits count
    std::string prevEff; bool prevCommon = false; int prevMatched = -1;
    for (int u = 0; u < nu; u++) {
        Unit un;
        int mode = (int) s.weighted({5, 5, 2, 1});    // spelling of an entry, relative continuation, undefined, common
        size_t ei = s.range(0, c.table.size() - 1);
        if (mode == 1 && prevMatched >= 0 && !c.table[(size_t) prevMatched].common && s.prob(3, 4)) {
            // prefer a sibling of the previous command (same first keyword), so that relative headers usually resolve
            std::vector<size_t> sib;
            for (size_t i = 0; i < c.table.size(); i++) if (!c.table[i].common && c.table[i].kw[0].name == c.table[(size_t) prevMatched].kw[0].name) sib.push_back(i);
            if (!sib.empty()) ei = sib[s.range(0, sib.size() - 1)];
        }
        const GenPattern &e = c.table[ei];
        Spelling sp = spellPattern(s, e);
        for (auto &m : sp.mnemonics) m = randCaseOf(s, m);
        bool q = sp.query;
        std::string ppath = (u > 0 && !prevCommon) ? pathOf(prevEff) : "";
        if (mode == 1 && !ppath.empty() && !e.common) {
            // relative: write only the tail; the effective header is the previous path + tail
            size_t from = sp.mnemonics.size() > 1 ? s.range(1, sp.mnemonics.size() - 1) : 0;
            if (s.prob(1, 3)) from = sp.mnemonics.size() - 1;
            un.written = joinHeader(sp.mnemonics, from, false, q);
        } else if (mode == 2) {
            std::vector<std::string> mn; int n = (int) s.range(1, 3);
            for (int i = 0; i < n; i++) mn.push_back(randCaseOf(s, upper(kPoolNames[s.range(0, kNPool - 1)])));
            un.written = joinHeader(mn, 0, s.prob(1, 3), s.coin());
        } else if (mode == 3 || e.common) {
            un.written = e.common ? joinHeader(sp.mnemonics, 0, false, q) : std::string("*") + s.pick(std::vector<std::string>{"IDN", "FOO", "RST"}) + (s.coin() ? "?" : "");
        } else {
            un.written = joinHeader(sp.mnemonics, 0, s.prob(1, 3), q);
        }
        // reference semantics of the effective header
        if (u == 0 || prevCommon || un.written[0] == ':' || un.written[0] == '*') un.eff = un.written; else un.eff = ppath + un.written;
        for (size_t i = 0; i < refs.size(); i++) {
            RefMatch rm = refMatch(refs[i], un.eff);
            if (rm.accept) { un.matched = (int) i; un.nums = rm.numbers; un.numsKnown = rm.solutions == 1; break; }
        }
        un.lead = u > 0 ? wsp(s, 2) : (s.prob(1, 6) ? wsp(s, 2) : "");
        int np = un.matched >= 0 ? c.nReaders[(size_t) un.matched] : 0;
        for (int i = 0; i < np; i++) { int v = s.irange(-999, 999); un.ints.push_back(v); un.params += (i ? "," : " ") + wsp(s, 1) + std::to_string(v) + (i + 1 < np ? wsp(s, 1) : ""); }
        if (np == 0 && s.prob(1, 4)) un.params = wsp(s, 2);      // header followed by white space only
        prevEff = un.eff; prevCommon = un.eff[0] == '*'; prevMatched = un.matched;
        c.units.push_back(un);
    }
    c.term = s.pick(std::vector<std::string>{"\n", "\r\n", "\r"});
    for (size_t u = 0; u < c.units.size(); u++) c.text += (u ? ";" : "") + c.units[u].lead + c.units[u].written + c.units[u].params;
    c.text += c.term;
    c.decoy = s.prob(1, 4);      // a second instrument is fed the same bytes first (fixture.hpp)
    return c;
}

static std::string describe(const MCase &c) {
    std::string t = "table [";
    for (size_t i = 0; i < c.table.size(); i++) t += fmt("%zu:'", i + 1) + c.table[i].text + (i < c.fails.size() && c.fails[i] ? "'(handler fails) " : "' ");
    return t + "] message '" + vis(c.text) + "'" + (c.decoy ? " [second instrument interleaved]" : "");
}

static std::string runCase(const MCase &c, bool *nt = nullptr) {
    InstCfg k; k.bufLen = c.text.size() + 8; k.queueLen = std::max(16, (int) c.units.size() + 4); k.heapLen = std::max((size_t) 1024, c.text.size() + 2 * c.units.size() + 64);   // room for the text of one -113 per unit
    k.decoy = c.decoy;
    for (size_t i = 0; i < c.table.size(); i++) {
        Cmd cmd; cmd.pattern = c.table[i].text;
        for (int r = 0; r < c.nReaders[i]; r++) cmd.script.readers.push_back(Reader());
        cmd.script.numbers = refNumericCount(refParsePattern(c.table[i].text)); cmd.script.numDefault = -7; cmd.script.probeSelf = true;
        if (i < c.fails.size() && c.fails[i]) cmd.script.retOk = false;
        k.cmds.push_back(cmd);
    }
    Inst I(k);
    bool ret = I.input(c.text);
    if (!I.invariant.empty()) return I.invariant + ": " + describe(c);
    std::vector<std::string> exp, got;
    bool anyUnmatched = false, anyDiff = false, anyFailed = false;
    for (auto &u : c.units) {
        if (u.eff != u.written) anyDiff = true;
        if (u.matched < 0) { exp.push_back("E:-113"); anyUnmatched = true; continue; }
        exp.push_back(fmt("H:%d:", u.matched + 1) + u.eff);
        int nn = refNumericCount(refParsePattern(c.table[(size_t) u.matched].text));
        if (nn > 0) { std::string n = "N:1:"; for (int i = 0; i < nn; i++) n += u.numsKnown ? fmt("%lld,", u.nums[(size_t) i] < 0 ? -7LL : u.nums[(size_t) i]) : std::string("?,"); exp.push_back(n); }
        exp.push_back("I:1:" + u.eff);
        for (int v : u.ints) exp.push_back(fmt("V:i32:1:0:%d", v));
        if ((size_t) u.matched < c.fails.size() && c.fails[(size_t) u.matched]) { exp.push_back("E:-200"); anyFailed = true; }
    }
    for (auto &l : I.trace) if (l[0] == 'H' || l[0] == 'N' || l[0] == 'I' || l[0] == 'V' || l[0] == 'E') got.push_back(l);
    if (nt) *nt = c.units.size() >= 2 && anyDiff;
    if (getenv("VF_DEBUG")) { for (auto &x : exp) fprintf(stderr, "exp %s\n", x.c_str()); for (auto &x : got) fprintf(stderr, "got %s\n", x.c_str()); }
    bool same = exp.size() == got.size();
    for (size_t i = 0; same && i < exp.size(); i++) {
        if (exp[i].compare(0, 2, "N:") == 0 && exp[i].find('?') != std::string::npos) { same = got[i].compare(0, 4, "N:1:") == 0; continue; }   // ambiguous suffix assignment: only acceptance
        same = exp[i] == got[i];
    }
    if (!same) {
        std::string e, g; for (auto &x : exp) e += x + " | "; for (auto &x : got) g += x + " | ";
        return "handler/error trace differs from the reference semantics.\n   expected: " + e + "\n   got:      " + g + "\n   " + describe(c);
    }
    if (ret != !(anyUnmatched || anyFailed)) return fmt("SCPI_Input returned %d, expected %d: ", (int) ret, (int) !(anyUnmatched || anyFailed)) + describe(c);
#if USE_DEVICE_DEPENDENT_ERROR_INFORMATION
    std::vector<std::string> q = I.drainErrors();
    size_t qi = 0;
    for (auto &u : c.units) {
        if (u.matched >= 0) {
            if ((size_t) u.matched < c.fails.size() && c.fails[(size_t) u.matched]) { if (qi >= q.size() || q[qi].compare(0, 4, "-200") != 0) return "no -200 queued for a handler that failed silently: " + describe(c); qi++; }
            continue;
        }
        if (qi >= q.size()) return "queue holds fewer -113 entries than unmatched units: " + describe(c);
        std::string ent = q[qi++];
        if (ent.compare(0, 5, "-113:") != 0 && ent != "-113") return "queue entry '" + vis(ent) + "' is not a -113: " + describe(c);
        if (ent.find(u.written) == std::string::npos && ent.size() < 250) return "-113 text '" + vis(ent) + "' does not carry the offending header '" + u.written + "': " + describe(c);
    }
    if (qi != q.size()) return "more errors queued than unmatched units: " + describe(c);
#endif
    return "";
}

// explicit replay form: table + reader counts + message text (units re-derived from the text)
static std::string replayText(const MCase &c) {
    std::string t = "table=";
    for (size_t i = 0; i < c.table.size(); i++) t += (i ? "|" : "") + c.table[i].text;
    t += "\nreaders=";
    for (size_t i = 0; i < c.nReaders.size(); i++) t += fmt("%d,", c.nReaders[i]);
    return t + "\ntext=" + hexEnc(c.text) + "\n";
}
static MCase fromReplay(const Replay &r) {
    MCase c;
    std::string t = r.get("table"); size_t i = 0;
    while (i <= t.size()) { size_t e = t.find('|', i); GenPattern p; p.text = t.substr(i, e == std::string::npos ? std::string::npos : e - i); c.table.push_back(p); if (e == std::string::npos) break; i = e + 1; }
    std::string rd = r.get("readers"); const char *q = rd.c_str();
    while (*q) { char *e; long v = strtol(q, &e, 10); if (e == q) break; c.nReaders.push_back((int) v); q = e; if (*q == ',') q++; }
    while (c.nReaders.size() < c.table.size()) c.nReaders.push_back(0);
    c.text = hexDec(r.get("text"));
    std::vector<RefPattern> refs; for (auto &p : c.table) refs.push_back(refParsePattern(p.text));
    std::string body = c.text; while (!body.empty() && (body.back() == '\n' || body.back() == '\r')) body.pop_back();
    std::string prevEff; bool prevCommon = false; size_t pos = 0; int u = 0;
    while (pos <= body.size()) {
        size_t e = body.find(';', pos); std::string unit = body.substr(pos, e == std::string::npos ? std::string::npos : e - pos);
        Unit un; size_t a = 0; while (a < unit.size() && (unit[a] == ' ' || unit[a] == '\t')) a++;
        size_t b = a; while (b < unit.size() && unit[b] != ' ' && unit[b] != '\t') b++;
        un.lead = unit.substr(0, a); un.written = unit.substr(a, b - a); un.params = unit.substr(b);
        std::string ppath = (u > 0 && !prevCommon) ? pathOf(prevEff) : "";
        if (u == 0 || prevCommon || un.written[0] == ':' || un.written[0] == '*') un.eff = un.written; else un.eff = ppath + un.written;
        for (size_t k = 0; k < refs.size(); k++) { RefMatch rm = refMatch(refs[k], un.eff); if (rm.accept) { un.matched = (int) k; un.nums = rm.numbers; un.numsKnown = rm.solutions == 1; break; } }
        const char *pp = un.params.c_str();
        while (*pp) { while (*pp == ' ' || *pp == '\t' || *pp == ',') pp++; if (!*pp) break; char *en; long v = strtol(pp, &en, 10); if (en == pp) break; un.ints.push_back((int) v); pp = en; }
        prevEff = un.eff; prevCommon = !un.eff.empty() && un.eff[0] == '*';
        c.units.push_back(un); u++;
        if (e == std::string::npos) break; pos = e + 1;
    }
    return c;
}

static std::string body(Src &s, Ev &ev) {
    MCase c = decode(s);
    bool nt = false;
    std::string m = runCase(c, &nt);
    ev.eval();
    bool afterUndef = false, afterCommon = false, rel = false, relUndef = false, lead = false;
    for (size_t u = 0; u < c.units.size(); u++) {
        bool diff = c.units[u].eff != c.units[u].written;
        if (diff && c.units[u].matched >= 0) rel = true;
        if (diff && c.units[u].matched < 0) relUndef = true;
        if (u > 0 && c.units[u - 1].matched < 0 && diff) afterUndef = true;
        if (u > 0 && c.units[u - 1].eff[0] == '*' && c.units[u].written[0] != ':' && c.units[u].written[0] != '*') afterCommon = true;
        if (!c.units[u].lead.empty() && diff) lead = true;
    }
    if (rel) ev.label("relative-resolved");
    if (relUndef) ev.label("relative-undefined");
    if (afterUndef) ev.label("relative-after-undefined-unit");
    if (afterCommon) ev.label("relative-after-common-command");
    if (lead) ev.label("relative-with-leading-white-space");
    ev.label(fmt("units-%zu", c.units.size()));
    if (nt) { ev.nt(hashStr(describe(c))); if (ev.wantSample()) ev.sample(describe(c)); }
    return m;
}

int main(int argc, char **argv) {
    std::vector<Sub> subs;
    subs.push_back({"msg", [](const Opt &, Ev &) {}, [](const Replay &r) { return runCase(fromReplay(r)); }});
    subs.push_back({"rand", [](const Opt &o, Ev &ev) { runRandom(o, ev, "rand", 260, o.quick() ? 25000 : 250000, body); },
                    [](const Replay &r) { auto v = r.choices(); Src s(v); Ev e; return body(s, e); }});
    return mainWith(argc, argv, "C02", subs);
}
