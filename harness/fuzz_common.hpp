// Fixed command table of the libFuzzer targets (C01): the IEEE 488.2 / SCPI handlers
// of the library plus scripted entries that between them call every SCPI_Param*,
// SCPI_ParamTo*, SCPI_Expr*, SCPI_Result* and SCPI_ResultArray* function.
#pragma once
#include "world.hpp"
#include <unistd.h>

namespace vf {

inline Reader rd(RKind k, bool mand = true, int n = 1) { Reader r; r.kind = k; r.mandatory = mand; r.n = n; return r; }
inline OItem oi(OKind k, uint64_t u = 0, int base = 10) { OItem i; i.kind = k; i.u = u; i.base = base; return i; }

inline World fuzzWorld() {
    World w;
    auto add = [&](const char *pat, Script sc) { GenPattern p; p.text = pat; p.common = pat[0] == '*'; p.query = pat[strlen(pat) - 1] == '?'; if (p.common) { p.commonName = std::string(pat + 1); if (p.query) p.commonName.pop_back(); } w.table.push_back(p); sc.probeSelf = true; w.scripts.push_back(sc); };
    auto S = [](std::vector<Reader> r, std::vector<OItem> it = {}, bool ok = true) { Script s; s.readers = r; s.items = it; s.retOk = ok; return s; };
    add("TEST:INT32", S({rd(R_I32)}));
    add("TEST:UINT32", S({rd(R_U32)}));
    add("TEST:INT64", S({rd(R_I64)}));
    add("TEST:UINT64", S({rd(R_U64)}));
    add("TEST:FLOat", S({rd(R_F32)}));
    add("TEST:DOUBle", S({rd(R_F64)}));
    add("TEST:NUMber", S({rd(R_NUM), rd(R_NUM, false)}));
    add("TEST:BOOL", S({rd(R_BOOL)}));
    add("TEST:CHOice", S({rd(R_CHOICE)}));
    add("TEST:CHARs", S({rd(R_CHARS), rd(R_CHARS, false)}));
    add("TEST:TEXT0", S({rd(R_TEXT, true, 0)}));
    add("TEST:TEXT1", S({rd(R_TEXT, true, 1)}));
    add("TEST:TEXT5", S({rd(R_TEXT, true, 5), rd(R_TEXT, false, 2)}));
    add("TEST:BLOCk", S({rd(R_BLOCK)}));
    add("TEST:ARRay:INT32", S({rd(R_ARR_I32, true, 4)}));
    add("TEST:ARRay:UINT32", S({rd(R_ARR_U32, true, 3)}));
    add("TEST:ARRay:INT64", S({rd(R_ARR_I64, false, 2)}));
    add("TEST:ARRay:UINT64", S({rd(R_ARR_U64, true, 1)}));
    add("TEST:ARRay:FLOat", S({rd(R_ARR_F32, true, 4)}));
    add("TEST:ARRay:DOUBle", S({rd(R_ARR_F64, false, 4), rd(R_I32, false)}));
    add("TEST:EXPR:NUMeric", S({rd(R_EXPR_NUM)}));
    add("TEST:EXPR:CHANnel0", S({rd(R_EXPR_CHAN, true, 0)}));
    add("TEST:EXPR:CHANnel1", S({rd(R_EXPR_CHAN, true, 1)}));
    add("TEST:EXPR:CHANnel2", S({rd(R_EXPR_CHAN, true, 2), rd(R_RAW, false)}));
    add("TEST:RAW", S({rd(R_RAW), rd(R_RAW, false), rd(R_RAW, false)}));
    add("TEST:MIX", S({rd(R_I32), rd(R_F64, false), rd(R_TEXT, false, 5), rd(R_NUM, false)}));
    { Script s = S({}); s.numbers = 2; add("TEST#:NUMbers#", s); }
    { Script s = S({rd(R_I32, false)}); s.numbers = 3; add("OUTPut#[:MODulation#]:FM#", s); }
    {
        OItem t; t.kind = O_TEXT; t.s = "a\"b"; OItem m; m.kind = O_MNEM; m.s = "MN"; OItem bl; bl.kind = O_BLOCK; bl.s = std::string("\x00\n;", 3);
        OItem f; f.kind = O_F32; f.d = 1.5; OItem d; d.kind = O_F64; d.d = -2.25e-3;
        add("TEST:Q?", S({rd(R_I32, false)}, {oi(O_I8, 0x80), oi(O_U8, 200, 16), oi(O_I16, 0x8000), oi(O_U16, 5, 2), oi(O_I32, 0x80000000u), oi(O_U32, 7, 8), oi(O_I64, 0x8000000000000000ULL), oi(O_U64, ~0ULL, 16), oi(O_BOOL, 1), f, d, m, t, bl}));
    }
    {
        std::vector<OItem> items;
        for (int elem = 0; elem < 10; elem++) for (int fmt = 0; fmt < 3; fmt++) { OItem a; a.kind = O_ARR; a.elem = elem; a.format = fmt; a.arr = {1, 0x7f, 0xffffffffffffff80ULL}; if (elem >= 8) a.arr = {0x3f800000, 0x40000000}; items.push_back(a); }
        add("TEST:QARRay?", S({}, items));
    }
    { OItem h = oi(O_BLOCKHDR, 6); OItem d1; d1.kind = O_BLOCKDATA; d1.s = "abc"; OItem d2; d2.kind = O_BLOCKDATA; d2.s = "defg"; OItem d3; d3.kind = O_BLOCKDATA; d3.s = "def"; add("TEST:QSTReam?", S({}, {h, d1, d2, d3, oi(O_I32, 1)})); }
    { OItem e; e.kind = O_ERRPUSH; e.code = -221; add("TEST:QERR?", S({}, {oi(O_I32, 1), e, oi(O_I32, 2)})); }
    add("TEST:FAIL", S({rd(R_I32, false)}, {}, false));
    add("TEST:QFAIL?", S({}, {oi(O_I32, 7)}, false));
    add("MEASure[:SCALar]:VOLTage[:DC]?", S({rd(R_NUM, false), rd(R_NUM, false)}, {oi(O_I32, 3)}));
    add("TEST:OPT", S({rd(R_I32, false), rd(R_CHARS, false), rd(R_BLOCK, false)}));
    return w;
}

inline InstCfg fuzzCfg(const World &w, size_t bufLen, int queueLen, size_t heapLen) {
    InstCfg k = worldCfg(w, bufLen, queueLen);
    k.heapLen = heapLen;
    static const struct { const char *pat; const char *lib; } lib[] = {
        {"*CLS", "CLS"}, {"*ESE", "ESE"}, {"*ESE?", "ESEQ"}, {"*ESR?", "ESRQ"}, {"*IDN?", "IDNQ"}, {"*OPC", "OPC"}, {"*OPC?", "OPCQ"}, {"*RST", "RST"}, {"*SRE", "SRE"}, {"*SRE?", "SREQ"},
        {"*STB?", "STBQ"}, {"*TST?", "TSTQ"}, {"*WAI", "WAI"}, {"SYSTem:ERRor[:NEXT]?", "ERRNEXTQ"}, {"SYSTem:ERRor:COUNt?", "ERRCOUNTQ"}, {"SYSTem:VERSion?", "VERSQ"},
        {"STATus:QUEStionable[:EVENt]?", "QUESEVQ"}, {"STATus:QUEStionable:CONDition?", "QUESCONDQ"}, {"STATus:QUEStionable:ENABle", "QUESENA"}, {"STATus:QUEStionable:ENABle?", "QUESENAQ"},
        {"STATus:OPERation[:EVENt]?", "OPEREVQ"}, {"STATus:OPERation:CONDition?", "OPERCONDQ"}, {"STATus:OPERation:ENABle", "OPERENA"}, {"STATus:OPERation:ENABle?", "OPERENAQ"}, {"STATus:PRESet", "PRES"}};
    for (auto &l : lib) { Cmd c; c.pattern = l.pat; c.lib = libIndex(l.lib); k.cmds.push_back(c); }
    return k;
}

// classification pass (VF_CLASSIFY_OUT=<file>): counts inputs that reached >= 1 handler or >= 1 queued error
struct Classify {
    uint64_t inputs = 0, nontrivial = 0, handlers = 0, errors = 0, overruns = 0, flushCalls = 0, direct = 0, noCallbacks = 0;
    std::vector<std::string> samples;
    const char *path = nullptr;
    static Classify &get() { static Classify c; return c; }
    static void dump() {
        Classify &c = get();
        if (!c.path) return;
        FILE *f = fopen(c.path, "w");
        if (!f) return;
        fprintf(f, "inputs=%llu\nnontrivial=%llu\nhandlers=%llu\nerrors=%llu\noverruns=%llu\nflushes=%llu\ndirect=%llu\nnocallbacks=%llu\n", (unsigned long long) c.inputs, (unsigned long long) c.nontrivial,
                (unsigned long long) c.handlers, (unsigned long long) c.errors, (unsigned long long) c.overruns, (unsigned long long) c.flushCalls, (unsigned long long) c.direct, (unsigned long long) c.noCallbacks);
        for (auto &s : c.samples) fprintf(f, "sample=%s\n", hexEnc(s).c_str());
        fclose(f);
    }
    void init() { if (path) return; path = getenv("VF_CLASSIFY_OUT"); if (path) atexit(dump); }
    void note(Inst &I, const std::string &stream) {
        if (!path) return;
        inputs++;
        bool nt = I.handlerCalls > 0 || !I.errors.empty() || SCPI_ErrorCount(&I.ctx) > 0;
        if (nt) { nontrivial++; if (samples.size() < 8 && (nontrivial & (nontrivial - 1)) == 0) samples.push_back(stream.substr(0, 200)); }
        handlers += (uint64_t) I.handlerCalls; errors += I.errors.size();
        for (int e : I.errors) if (e == -363) overruns++;
    }
};

// One structure-aware case, shared by the libFuzzer target fuzz_struct (choices = the fuzzer's bytes) and by the
// rapidcheck-driven twin c01 (choices generated and shrunk by rapidcheck): returns "" or the violated invariant.
inline std::string structCase(Src &s, const World &W, Inst **keep = nullptr, std::string *streamOut = nullptr) {
    size_t bufSel = s.range(0, 3), bufRaw = s.range(2, 48);
    int queueLen = (int) s.range(1, 4);
    size_t heapLen = s.range(1, 64);
    int nm = (int) s.range(1, 4);
    std::string stream;
    MsgOpt mo;
    for (int m = 0; m < nm; m++) {
        mo.terminate = !s.prob(1, 8);
        std::string msg = genMessage(s, W, mo);
        if (s.prob(1, 3)) mutateBytes(s, msg);
        stream += msg;
        // the shipped handlers are part of the library too (the grammar above only draws from the scripted entries)
        if (s.prob(1, 5)) stream += s.pick(std::vector<std::string>{"*IDN?\n", "SYST:ERR?\n", "*ESR?;*STB?\n", "STAT:PRES;*CLS\n", "*TST?\n", "SYST:VERS?\n", "*ESE 255;*SRE 255\n", "STAT:OPER:ENAB 65535;STAT:QUES:ENAB 1\n", "*OPC;*OPC?;*WAI\n", "SYST:ERR:COUN?\n", "*RST\n"});
    }
    // half of the inputs get a buffer that holds the whole stream, the others a small one (overrun / boundary paths)
    size_t bufLen = bufSel < 2 ? stream.size() + 1 + bufSel : bufSel == 2 ? bufRaw : std::min((size_t) 300, stream.size() / 2 + 2);
    if (bufLen < 2) bufLen = 2;
    static std::unique_ptr<Inst> held;
    InstCfg fk = fuzzCfg(W, bufLen, queueLen, heapLen);
    fk.decoy = s.prob(1, 4);            // a second instrument (other table positions, shorter table, other units) is fed the same chunks first
    fk.noOptionalCallbacks = s.prob(1, 8);
    fk.idnVariant = s.prob(1, 3) ? (int) s.range(1, 2) : 0;
    held.reset(new Inst(fk));
    Inst &I = *held;
    I.cfg.traceValues = false;
    size_t pos = 0;
    while (pos < stream.size()) {
        size_t room = bufLen - 1 - I.ctx.buffer.position;
        size_t len = s.prob(1, 40) ? room + s.range(1, 4) : s.range(1, std::max((size_t) 1, std::min(room, (size_t) 24)));
        if (s.prob(1, 50)) { I.input("", 0); Classify::get().flushCalls++; }
        if (len > stream.size() - pos) len = stream.size() - pos;
        I.input(stream.data() + pos, (int) len);
        pos += len;
        I.trace.clear();
        if (!I.invariant.empty()) return I.invariant;
    }
    I.input("", 0);
    if (!I.invariant.empty()) return I.invariant;
    if (keep) *keep = &I;
    if (streamOut) *streamOut = stream;
    if (s.prob(1, 4) && !stream.empty()) {
        // a complete NUL-terminated line handed straight to the line parser
        Inst D(fuzzCfg(W, 16, queueLen, heapLen));
        D.cfg.traceValues = false;
        XBuf line(stream.size() + 1);
        memcpy(line.p, stream.data(), stream.size());
        line.p[stream.size()] = 0;
        SCPI_Parse(&D.ctx, line.p, (int) strlen(line.p));
        D.checkInvariants("SCPI_Parse");
        if (!D.invariant.empty()) return D.invariant;
        if (!line.ok()) return "SCPI_Parse wrote past the line";
        D.drainErrors();
    }
    return "";
}

[[noreturn]] inline void fuzzFail(const std::string &why) {
    fprintf(stderr, "SEMANTIC-INVARIANT violated: %s\n", why.c_str());
    fflush(stderr);
    __builtin_trap();
}

} // namespace vf
