// Reference implementation of the SCPI command-pattern language, written from the
// property text (C03), not from matchCommand: pattern -> keyword list; header ->
// mnemonic list; backtracking match with optional keywords and numeric suffixes.
#pragma once
#include <string>
#include <vector>
#include <cctype>
#include <cstdint>

namespace vf {

struct RefKeyword { std::string longForm, shortForm; bool optional = false, numeric = false; };
struct RefPattern { bool ok = false, common = false, query = false; std::string commonName; std::vector<RefKeyword> kw; };

inline std::string upper(const std::string &s) { std::string o = s; for (auto &c : o) c = (char) toupper((unsigned char) c); return o; }

inline RefPattern refParsePattern(const std::string &pat) {
    RefPattern p;
    std::string s = pat;
    if (!s.empty() && s.back() == '?') { p.query = true; s.pop_back(); }
    if (!s.empty() && s[0] == '*') { p.common = true; p.commonName = upper(s.substr(1)); p.ok = !p.commonName.empty(); return p; }
    size_t i = 0;
    while (i < s.size()) {
        RefKeyword k;
        if (s[i] == '[') { k.optional = true; i++; }
        if (i < s.size() && s[i] == ':') i++;
        size_t st = i;
        while (i < s.size() && s[i] != ':' && s[i] != '[' && s[i] != ']') i++;
        std::string name = s.substr(st, i - st);
        if (name.empty()) return p;
        if (name.back() == '#') { k.numeric = true; name.pop_back(); }
        size_t sh = 0;
        while (sh < name.size() && !islower((unsigned char) name[sh])) sh++;
        k.shortForm = upper(name.substr(0, sh));
        k.longForm = upper(name);
        if (k.optional) { if (i >= s.size() || s[i] != ']') return p; i++; }
        p.kw.push_back(k);
    }
    p.ok = !p.kw.empty();
    return p;
}

struct RefHeader { bool ok = false, common = false, query = false, leadingColon = false; std::vector<std::string> mn; };
inline RefHeader refParseHeader(const std::string &hdr) {
    RefHeader h;
    std::string s = hdr;
    if (!s.empty() && s.back() == '?') { h.query = true; s.pop_back(); }
    if (!s.empty() && s[0] == ':') { h.leadingColon = true; s = s.substr(1); }
    if (!s.empty() && s[0] == '*') { h.common = true; s = s.substr(1); }
    size_t i = 0;
    while (true) {
        size_t e = s.find(':', i);
        h.mn.push_back(upper(s.substr(i, e == std::string::npos ? std::string::npos : e - i)));
        if (e == std::string::npos) break;
        i = e + 1;
    }
    h.ok = true;
    for (auto &m : h.mn) if (m.empty()) h.ok = false;
    return h;
}

// does keyword k accept mnemonic m?  digits = numeric suffix value (-1: none written)
inline bool refKeywordAccepts(const RefKeyword &k, const std::string &m, long long &digits) {
    digits = -1;
    for (const std::string *form : {&k.longForm, &k.shortForm}) {
        if (m.size() < form->size() || m.compare(0, form->size(), *form) != 0) continue;
        std::string rest = m.substr(form->size());
        if (rest.empty()) return true;
        if (!k.numeric) continue;
        bool alld = true;
        for (char c : rest) alld &= isdigit((unsigned char) c) != 0;
        if (!alld) continue;
        digits = atoll(rest.c_str());
        return true;
    }
    return false;
}

struct RefMatch { bool accept = false; std::vector<long long> numbers; int solutions = 0; };   // numbers: -1 = default
inline void refRec(const RefPattern &p, const RefHeader &h, size_t j, size_t i, std::vector<long long> &cur, RefMatch &out) {
    if (j == p.kw.size()) {
        if (i == h.mn.size()) { out.solutions++; if (!out.accept) { out.accept = true; out.numbers = cur; } }
        return;
    }
    const RefKeyword &k = p.kw[j];
    if (i < h.mn.size()) {
        long long d;
        if (refKeywordAccepts(k, h.mn[i], d)) {
            if (k.numeric) cur.push_back(d);
            refRec(p, h, j + 1, i + 1, cur, out);
            if (k.numeric) cur.pop_back();
        }
    }
    if (k.optional) {
        if (k.numeric) cur.push_back(-1);
        refRec(p, h, j + 1, i, cur, out);
        if (k.numeric) cur.pop_back();
    }
}
inline RefMatch refMatch(const RefPattern &p, const std::string &header) {
    RefMatch r;
    if (!p.ok) return r;
    RefHeader h = refParseHeader(header);
    if (!h.ok || h.query != p.query) return r;
    if (p.common) {
        if (!h.common || h.leadingColon || h.mn.size() != 1) return r;
        r.accept = h.mn[0] == p.commonName; r.solutions = r.accept;
        return r;
    }
    if (h.common) return r;
    std::vector<long long> cur;
    refRec(p, h, 0, 0, cur, r);
    return r;
}
inline int refNumericCount(const RefPattern &p) { int n = 0; for (auto &k : p.kw) n += k.numeric; return n; }

} // namespace vf
