// C17 - binary results are valid definite-length blocks in the requested byte order.
// Oracle: independent encoder ('#', digit count, decimal byte count, element bytes
// built from the numeric value with shifts) and an accounting model for streamed
// blocks (refusal of over-length data with exactly one -310, one result item per
// completed block).
#include "fixture.hpp"
using namespace vf;

static const size_t kEsz[] = {1, 1, 2, 2, 4, 4, 8, 8, 4, 8};

static std::string blockHeader(uint64_t n) { std::string d = std::to_string(n); return "#" + std::to_string(d.size()) + d; }

struct Expect { std::string out; int errors310 = 0; };

// A case is the result calls of one handler, or - with O_UNIT markers in between - of the handlers of consecutive
// units of one compound message ("Q0?;Q1?;Q2?").  The accounting of a streamed block belongs to the unit that
// announced it (parser.c resets arbitrary_remaining for every command): data calls of a later unit that has not
// announced a block of its own are beyond the announced length.
static OItem mkUnit() { OItem it; it.kind = O_UNIT; return it; }

// reference rendering of a handler's result calls
static Expect render(const std::vector<OItem> &items) {
    Expect e;
    int count = 0;
    uint64_t remaining = 0;
    bool earlier = false;        // an earlier unit of the message completed a result item: this unit's first item follows a ';'
    auto delim = [&]() { if (count > 0) e.out += ","; else if (earlier) { e.out += ";"; earlier = false; } };
    for (auto &it : items) {
        switch ((int) it.kind) {
            case O_UNIT: if (count > 0) earlier = true; count = 0; remaining = 0; break;
            case O_I32: delim(); e.out += std::to_string((int32_t) it.u); count++; break;
            case O_MNEM: delim(); e.out += it.s; count++; break;
            case O_BLOCK: delim(); e.out += blockHeader(it.s.size()) + it.s; remaining = 0; count++; break;
            case O_BLOCKHDR: delim(); e.out += blockHeader(it.u); remaining = it.u; break;
            case O_BLOCKDATA:
                if (remaining < it.s.size()) { e.errors310++; break; }
                e.out += it.s; remaining -= it.s.size();
                if (remaining == 0) count++;
                break;
            case O_ARR: {
                size_t es = kEsz[it.elem];
                delim();
                e.out += blockHeader(it.arr.size() * es);
                for (uint64_t v : it.arr) {
                    for (size_t b = 0; b < es; b++) {
                        size_t shift = it.format == SCPI_FORMAT_NORMAL ? (es - 1 - b) * 8 : b * 8;   // big-endian : little-endian
                        e.out += (char) ((v >> shift) & 0xff);
                    }
                }
                remaining = 0; count++;
                break;
            }
            default: break;
        }
    }
    return e;
}

static std::string itemsText(const std::vector<OItem> &items) {
    std::string s;
    for (auto &it : items) {
        switch ((int) it.kind) {
            case O_I32: s += fmt("Int32(%d) ", (int32_t) it.u); break;
            case O_MNEM: s += "Mnemonic(" + it.s + ") "; break;
            case O_BLOCK: s += fmt("Block(%zu bytes) ", it.s.size()); break;
            case O_BLOCKHDR: s += fmt("Header(%llu) ", (unsigned long long) it.u); break;
            case O_BLOCKDATA: s += fmt("Data(%zu) ", it.s.size()); break;
            case O_UNIT: s += "| next unit: "; break;
            case O_ARR: s += fmt("Array(elem=%d,n=%zu,%s) ", it.elem, it.arr.size(), it.format == SCPI_FORMAT_NORMAL ? "NORMAL" : "SWAPPED"); break;
            default: break;
        }
    }
    return s;
}
static std::string replayOf(const std::vector<OItem> &items) {
    std::string s = "items=";
    for (auto &it : items) {
        s += fmt("%d:%llu:%d:%d:%s:", (int) it.kind, (unsigned long long) it.u, it.elem, it.format, hexEnc(it.s).c_str());
        for (auto v : it.arr) s += fmt("%llx.", (unsigned long long) v);
        s += ";";
    }
    return s + "\n";
}
static std::vector<OItem> fromReplay(const Replay &r) {
    std::vector<OItem> v; std::string s = r.get("items"); size_t i = 0;
    while (i < s.size()) {
        size_t e = s.find(';', i); if (e == std::string::npos) break;
        std::string item = s.substr(i, e - i); i = e + 1;
        std::vector<std::string> f; size_t p = 0;
        for (int k = 0; k < 5; k++) { size_t c = item.find(':', p); f.push_back(item.substr(p, c - p)); p = c + 1; }
        OItem it; it.kind = (OKind) atoi(f[0].c_str()); it.u = strtoull(f[1].c_str(), nullptr, 10); it.elem = atoi(f[2].c_str()); it.format = atoi(f[3].c_str()); it.s = hexDec(f[4]);
        std::string arr = item.substr(p); const char *q = arr.c_str();
        while (*q) { char *en; uint64_t x = strtoull(q, &en, 16); if (en == q) break; it.arr.push_back(x); q = en; if (*q == '.') q++; }
        v.push_back(it);
    }
    return v;
}

static std::string checkCase(const std::vector<OItem> &items) {
    armCase("sub=one\n" + replayOf(items));
    InstCfg k; k.bufLen = 16; k.queueLen = 256;   // large enough for every refused data call of a case
    k.decoy = (hashStr(replayOf(items)) & 3) == 0;   // a quarter of the cases run next to a second instrument that answers the same query from inside this one's write callback (fixture.hpp)
    std::string msg;
    {
        std::vector<std::vector<OItem>> units(1);
        for (auto &it : items) { if (it.kind == O_UNIT) units.emplace_back(); else units.back().push_back(it); }
        for (size_t u = 0; u < units.size(); u++) {
            Cmd q; q.pattern = units.size() == 1 ? "Q?" : fmt("Q%zu?", u); q.script.items = units[u]; k.cmds.push_back(q);
            msg += (u ? ";" : "") + q.pattern;
        }
    }
    Inst I(k);
    I.input(msg + "\n");
    if (!I.invariant.empty()) return I.invariant;
    Expect e = render(items);
    std::string out = I.out;
    // the response terminator is C06's business: compare the response data only
    if (out == e.out + "\r\n") out = e.out;
    if (out != e.out) {
        size_t d = 0; while (d < out.size() && d < e.out.size() && out[d] == e.out[d]) d++;
        return fmt("output differs from the reference encoding at byte %zu (got %zu bytes, expected %zu): got '...", d, out.size(), e.out.size()) + vis(out.substr(d > 8 ? d - 8 : 0, 40)) + "' expected '..." +
               vis(e.out.substr(d > 8 ? d - 8 : 0, 40)) + "' for " + itemsText(items);
    }
    int n310 = 0, other = 0;
    for (int c : I.errors) { if (c == -310) n310++; else other++; }
    if (n310 != e.errors310 || other) return fmt("%d x -310 and %d other errors queued, expected exactly %d x -310 (one per refused over-length data call) for ", n310, other, e.errors310) + itemsText(items);
    return "";
}

static OItem mkArr(int elem, int format, size_t n, uint64_t seed) {
    OItem it; it.kind = O_ARR; it.elem = elem; it.format = format;
    uint64_t x = splitmix(seed);
    for (size_t i = 0; i < n; i++) { x = splitmix(x); uint64_t v = x; if (kEsz[elem] < 8) v &= (1ULL << (kEsz[elem] * 8)) - 1; it.arr.push_back(v); }
    return it;
}
static OItem mkBytes(OKind k, size_t n, uint64_t seed) {
    OItem it; it.kind = k; uint64_t x = splitmix(seed);
    for (size_t i = 0; i < n; i++) { if ((i & 7) == 0) x = splitmix(x); it.s += (char) (x >> ((i & 7) * 8)); }
    return it;
}
static OItem mkInt(int v) { OItem it; it.kind = O_I32; it.u = (uint64_t) (int64_t) v; return it; }
static OItem mkHdr(uint64_t n) { OItem it; it.kind = O_BLOCKHDR; it.u = n; return it; }

static bool nontrivial(const std::vector<OItem> &items) {
    for (auto &it : items) {
        if (it.kind == O_ARR && it.arr.size() * kEsz[it.elem] >= 10) return true;
        if (it.kind == O_BLOCK && it.s.size() >= 10) return true;
        if (it.kind == O_BLOCKHDR || it.kind == O_BLOCKDATA) return true;
    }
    return false;
}

static void runGrid(const Opt &o, Ev &ev) {
    uint64_t idx = 0;
    auto run = [&](const std::vector<OItem> &items) -> bool {
        if ((idx++ % (uint64_t) o.workers) != (uint64_t) o.worker) return true;
        std::string m = checkCase(items);
        ev.eval();
        if (nontrivial(items)) { ev.ntCount(); if (ev.wantSample()) ev.sample(itemsText(items)); }
        if (!m.empty()) { failEnum(o, ev, "one", replayOf(items), m); return ev.failures.size() < 4; }
        return true;
    };
    // every element type x length 0..300 x both binary formats, alone and between two other items
    for (int elem = 0; elem < 10; elem++) for (size_t n = 0; n <= 300; n++) for (int f : {(int) SCPI_FORMAT_NORMAL, (int) SCPI_FORMAT_SWAPPED}) {
        if (!run({mkArr(elem, f, n, o.seed + n * 31 + (uint64_t) elem)})) return;
        if (n <= 12 || n % 25 == 0) if (!run({mkInt(7), mkArr(elem, f, n, o.seed + n), mkInt(-3)})) return;
    }
    // far beyond: byte counts around the 15/16-bit marks and six-digit headers
    for (size_t n : {(size_t) 8191, (size_t) 8192, (size_t) 16383, (size_t) 16384, (size_t) 17000, (size_t) 33000}) for (int elem : {1, 3, 4, 7}) {
        if (!run({mkArr(elem, elem & 1 ? (int) SCPI_FORMAT_NORMAL : (int) SCPI_FORMAT_SWAPPED, n, o.seed + n)})) return;
    }
    for (size_t n : {(size_t) 32767, (size_t) 32768, (size_t) 65535, (size_t) 65536, (size_t) 100000}) {
        if (!run({mkBytes(O_BLOCK, n, o.seed + n), mkInt(1)})) return;
        OItem d1 = mkBytes(O_BLOCKDATA, n / 2, o.seed), d2 = mkBytes(O_BLOCKDATA, n - n / 2, o.seed + 1);
        if (!run({mkHdr(n), d1, d2, mkInt(2)})) return;
    }
    for (size_t n = 0; n <= 300; n++) { if (!run({mkBytes(O_BLOCK, n, o.seed + n)})) return; if (n <= 12) if (!run({mkBytes(O_BLOCK, n, 1), mkBytes(O_BLOCK, n, 2), mkInt(1)})) return; }
    // header-only calls for large lengths (followed by one empty data call)
    for (uint64_t n : {9ULL, 10ULL, 99ULL, 100ULL, 999ULL, 1000ULL, 9999ULL, 10000ULL, 99999ULL, 100000ULL, 999999ULL, 1000000ULL, 9999999ULL, 10000000ULL, 99999999ULL, 100000000ULL, 999999999ULL})
        if (!run({mkHdr(n), mkBytes(O_BLOCKDATA, 0, 0)})) return;
    // streamed emission: every split of n <= 12 bytes into 1..4 pieces, over-length attempts at every point, items around
    for (size_t n = 0; n <= 12; n++) {
        std::string all = mkBytes(O_BLOCK, n, o.seed + 77).s;
        for (size_t a = 0; a <= n; a++) for (size_t b = a; b <= n; b++) for (size_t c = b; c <= n; c++) {
            std::vector<size_t> cuts = {0, a, b, c, n};
            std::vector<OItem> base; base.push_back(mkHdr(n));
            for (int p = 0; p < 4; p++) { if (p > 0 && cuts[(size_t) p + 1] == cuts[(size_t) p]) continue; OItem d; d.kind = O_BLOCKDATA; d.s = all.substr(cuts[(size_t) p], cuts[(size_t) p + 1] - cuts[(size_t) p]); base.push_back(d); }
            if (!run(base)) return;
            { auto v = base; v.insert(v.begin(), mkInt(5)); v.push_back(mkInt(6)); if (!run(v)) return; }
            // an over-length data call at every point of the stream
            for (size_t at = 1; at <= base.size(); at++) {
                size_t sent = 0; for (size_t i = 1; i < at; i++) sent += base[i].s.size();
                auto v = base; OItem d; d.kind = O_BLOCKDATA; d.s = std::string(n - sent + 1 + (at & 1), 'Z'); v.insert(v.begin() + (long) at, d);
                v.push_back(mkInt(9));
                if (!run(v)) return;
            }
        }
    }
    // data calls after a block that is already complete - emitted in one call, as an array in either byte order, or streamed to
    // its end: nothing is announced any more, so every non-empty data call is beyond the announced length (refused, one -310,
    // no further result item), whatever its size relative to the finished block. (Empty data calls there are left open.)
    for (size_t n = 0; n <= 12; n++) for (size_t extra : {(size_t) 1, n, n + 1, 2 * n}) {
        if (extra == 0) continue;
        OItem d; d.kind = O_BLOCKDATA; d.s = std::string(extra, 'X');
        if (!run({mkBytes(O_BLOCK, n, o.seed + n), d, mkInt(8)})) return;
        if (!run({mkInt(2), mkBytes(O_BLOCK, n, o.seed + n), d, d})) return;
        OItem whole = mkBytes(O_BLOCKDATA, n, o.seed + n);
        if (!run({mkHdr(n), whole, d, mkInt(8)})) return;
        for (int elem = 0; elem < 10; elem++) for (int f : {(int) SCPI_FORMAT_NORMAL, (int) SCPI_FORMAT_SWAPPED}) {
            OItem dd; dd.kind = O_BLOCKDATA; dd.s = std::string(extra == n ? n * kEsz[elem] : extra, 'Y');
            if (dd.s.empty()) continue;
            if (!run({mkArr(elem, f, n, o.seed + n), dd, mkInt(8)})) return;
        }
    }
    // blocks left incomplete (fewer bytes sent than announced) followed by another item: the block is not a result item yet
    for (size_t n : {1, 5, 12, 25, 100}) for (size_t sent = 0; sent < n; sent += (n > 12 ? n / 4 : 1)) {
        OItem d; d.kind = O_BLOCKDATA; d.s = std::string(sent, 'p');
        if (!run({mkHdr(n), d, mkInt(4)})) return;
        if (!run({mkInt(3), mkHdr(n), d, mkInt(4)})) return;
    }
    // compound messages: a block left incomplete by one unit, data calls without a header in the next one (refused: nothing
    // was announced by that unit), and complete streamed blocks in consecutive units
    for (size_t n : {1, 2, 5, 12, 30}) for (size_t sent = 0; sent <= n; sent++) for (size_t more : {(size_t) 0, (size_t) 1, n - sent, n - sent + 1}) {
        OItem d; d.kind = O_BLOCKDATA; d.s = std::string(sent, 'p');
        OItem d2; d2.kind = O_BLOCKDATA; d2.s = std::string(more, 'q');
        if (more == 0) continue;                                   // an empty data call without an announced block: left open
        if (!run({mkHdr(n), d, mkUnit(), d2})) return;
        if (!run({mkInt(1), mkHdr(n), d, mkUnit(), d2})) return;
        if (!run({mkInt(1), mkHdr(n), d, mkUnit(), d2, mkUnit(), d2})) return;
        if (sent == n) { if (!run({mkHdr(n), d, mkUnit(), mkHdr(more), d2, mkUnit(), mkInt(2)})) return; }
    }
    ev.exhaustive["all 10 element types x lengths 0..300 x NORMAL/SWAPPED; blocks 0..300; header-only lengths up to 999999999; every split of a streamed block of <= 12 bytes into <= 4 data calls with an over-length attempt at every point; non-empty data calls after blocks, arrays and streamed blocks of 0..12 elements that are already complete; blocks left at every fill level by one unit of a compound message and continued without a header by the next"] = true;
}

static std::vector<OItem> decodeUnit(Src &s);
static std::vector<OItem> decode(Src &s) {
    std::vector<OItem> v = decodeUnit(s);
    if (!s.prob(1, 4)) return v;
    // compound message of 2..3 units.  What separates the responses of two units is C06's subject and is only defined when
    // the earlier unit completed a result item; after a unit that wrote a partial block and nothing else, the later units
    // are reduced to their header-less data calls (which must all be refused).
    int units = (int) s.range(2, 3);
    bool dataOnly = false;
    std::vector<OItem> cur = v;
    for (int u = 1; u < units; u++) {
        { int count = 0; uint64_t rem = 0; bool wrote = false;
          for (auto &it : cur) switch ((int) it.kind) {
              case O_BLOCKHDR: rem = it.u; wrote = true; break;
              case O_BLOCKDATA: if (rem >= it.s.size()) { rem -= it.s.size(); if (rem == 0) count++; } break;
              default: count++; wrote = true; rem = 0; break; }
          if (wrote && count == 0) dataOnly = true; }
        cur = decodeUnit(s);
        if (dataOnly || s.prob(1, 3)) {
            std::vector<OItem> only;
            for (auto &it : cur) if (it.kind == O_BLOCKDATA && !it.s.empty()) only.push_back(it);
            if (only.empty()) { OItem d; d.kind = O_BLOCKDATA; d.s = std::string(s.range(1, 6), 'q'); only.push_back(d); }
            if (!dataOnly && s.coin()) only.push_back(mkInt(s.irange(-9, 9)));
            cur = only;
        }
        // an item that follows a block left incomplete gets no defined separator; in a later unit the case stops there
        { uint64_t rem = 0; size_t keep = cur.size();
          for (size_t i = 0; i < cur.size(); i++) {
              if (cur[i].kind == O_BLOCKDATA) { if (rem >= cur[i].s.size()) rem -= cur[i].s.size(); continue; }
              if (rem > 0) { keep = i; break; }
              rem = cur[i].kind == O_BLOCKHDR ? cur[i].u : 0;
          }
          cur.resize(keep); }
        v.push_back(mkUnit());
        v.insert(v.end(), cur.begin(), cur.end());
    }
    return v;
}
static std::vector<OItem> decodeUnit(Src &s) {
    std::vector<OItem> v;
    int n = (int) s.range(1, 5);
    for (int i = 0; i < n; i++) {
        switch (s.weighted({4, 2, 2, 3})) {
            case 0: { OItem it = mkArr((int) s.range(0, 9), s.coin() ? SCPI_FORMAT_NORMAL : SCPI_FORMAT_SWAPPED, 0, 0); size_t k = s.prob(1, 4) ? s.range(0, 300) : s.range(0, 20); for (size_t j = 0; j < k; j++) { uint64_t x = s.prob(1, 3) ? s.u64() : (uint64_t) s.range(0, 0xffff); if (kEsz[it.elem] < 8) x &= (1ULL << (kEsz[it.elem] * 8)) - 1; it.arr.push_back(x); } v.push_back(it); if (s.prob(1, 5)) { OItem d; d.kind = O_BLOCKDATA; d.s = std::string(s.coin() ? it.arr.size() * kEsz[it.elem] + (it.arr.empty() ? 1 : 0) : s.range(1, 6), 'S'); v.push_back(d); } break; }
            case 1: v.push_back(mkInt(s.irange(-100, 100))); break;
            case 2: { OItem it; it.kind = O_BLOCK; size_t k = s.range(0, 40); for (size_t j = 0; j < k; j++) it.s += (char) s.range(0, 255); v.push_back(it); if (s.prob(1, 5)) { OItem d; d.kind = O_BLOCKDATA; d.s = std::string(s.coin() ? k + (k == 0 ? 1 : 0) : s.range(1, 6), 'S'); v.push_back(d); } break; }
            default: { // streamed block with optional over-length attempts
                size_t total = s.prob(1, 5) ? s.range(0, 2000) : s.range(0, 30);
                v.push_back(mkHdr(total));
                size_t sent = 0; int pieces = 0;
                while (true) {
                    if (s.prob(1, 4)) { OItem d; d.kind = O_BLOCKDATA; d.s = std::string(total - sent + 1 + s.range(0, 3), 'Z'); v.push_back(d); }
                    if (pieces >= 1 && sent < total && s.prob(1, 5)) break;          // left incomplete: it does not count as a result item
                    size_t k = (pieces >= 3) ? total - sent : s.range(0, total - sent);
                    OItem d; d.kind = O_BLOCKDATA; for (size_t j = 0; j < k; j++) d.s += (char) s.range(0, 255);
                    v.push_back(d); sent += k; pieces++;
                    if (sent >= total) break;
                }
                break;
            }
        }
    }
    return v;
}
static std::string body(Src &s, Ev &ev) {
    std::vector<OItem> items = decode(s);
    std::string m = checkCase(items);
    ev.eval();
    for (auto &it : items) if (it.kind == O_UNIT) { ev.label("rand-compound-message"); break; }
    for (auto &it : items) if (it.kind != O_UNIT) ev.label(it.kind == O_ARR ? (it.format == SCPI_FORMAT_NORMAL ? "rand-array-normal" : "rand-array-swapped") : it.kind == O_BLOCKHDR ? "rand-streamed-block" : it.kind == O_BLOCK ? "rand-block" : it.kind == O_BLOCKDATA ? "rand-data-call" : "rand-scalar");
    if (nontrivial(items)) ev.nt(hashStr(replayOf(items)));
    if (nontrivial(items) && ev.wantSample()) ev.sample("random: " + itemsText(items));
    return m;
}

int main(int argc, char **argv) {
    std::vector<Sub> subs;
    auto replayOne = [](const Replay &r) { return checkCase(fromReplay(r)); };
    subs.push_back({"one", [](const Opt &, Ev &) {}, replayOne});
    subs.push_back({"grid", runGrid, replayOne});
    subs.push_back({"rand", [](const Opt &o, Ev &ev) { runRandom(o, ev, "rand", 700, o.quick() ? 20000 : 200000, body); },
                    [](const Replay &r) { auto v = r.choices(); Src s(v); Ev e; return body(s, e); }});
    return mainWith(argc, argv, "C17", subs);
}
