// rapidcheck lives only in this translation unit (it is the expensive header).
#include "common.hpp"
#include <signal.h>
#include <cerrno>
#include <sys/time.h>
#include <rapidcheck.h>

namespace vf {

// Shrink candidates of a choice sequence, produced lazily: shorter prefixes first, then zeroed
// blocks (halving block sizes down to single elements), then halved / decremented elements.
// A zero tail is the same as a shorter sequence because Src yields 0 when exhausted.
class ShrinkSeq {
public:
    explicit ShrinkSeq(std::vector<uint32_t> b) : base_(std::move(b)) {
        while (!base_.empty() && base_.back() == 0) base_.pop_back();
        block_ = base_.size();
    }
    rc::Maybe<std::vector<uint32_t>> operator()() {
        const size_t n = base_.size();
        if (n == 0) return rc::Nothing;
        while (phase_ == 0) {                       // prefixes: n/2, 3n/4, n-1
            static const int num[] = {1, 3}, den[] = {2, 4};
            if (idx_ < 2) { size_t k = n * num[idx_] / den[idx_]; idx_++; if (k < n) return prefix(k); continue; }
            if (idx_ == 2) { idx_++; if (n >= 1) return prefix(n - 1); }
            phase_ = 1; idx_ = 0; block_ = (n + 1) / 2;
        }
        while (phase_ == 1) {                       // zero one aligned block
            if (block_ == 0) { phase_ = 2; idx_ = 0; dblock_ = std::min(n / 2, (size_t) 16); break; }
            while (idx_ * block_ < n) {
                size_t lo = idx_ * block_, hi = std::min(n, lo + block_);
                idx_++;
                bool any = false;
                for (size_t i = lo; i < hi; i++) any |= base_[i] != 0;
                if (!any) continue;
                std::vector<uint32_t> v = base_;
                for (size_t i = lo; i < hi; i++) v[i] = 0;
                return v;
            }
            block_ = block_ == 1 ? 0 : (block_ + 1) / 2;
            idx_ = 0;
        }
        while (phase_ == 2) {                       // delete one aligned block (later choices shift left)
            if (dblock_ == 0) { phase_ = 3; idx_ = 0; break; }
            if (idx_ * dblock_ < n) {
                size_t lo = idx_ * dblock_, hi = std::min(n, lo + dblock_);
                idx_++;
                if (hi - lo == n) continue;
                std::vector<uint32_t> v(base_.begin(), base_.begin() + (long) lo);
                v.insert(v.end(), base_.begin() + (long) hi, base_.end());
                return v;
            }
            dblock_ = dblock_ == 1 ? 0 : (dblock_ + 1) / 2;
            idx_ = 0;
        }
        while (phase_ == 3) {                       // smaller element values
            // halving / low byte only: decrementing uniform 32-bit values would take 2^32 steps
            if (idx_ >= 2 * n) { phase_ = 4; break; }
            size_t i = idx_ / 2; bool half = (idx_ % 2) == 0;
            idx_++;
            if (base_[i] <= 1) continue;
            if (!half && base_[i] < 256) continue;
            std::vector<uint32_t> v = base_;
            v[i] = half ? base_[i] / 2 : (base_[i] & 0xffu);
            return v;
        }
        return rc::Nothing;
    }
private:
    std::vector<uint32_t> prefix(size_t k) { return std::vector<uint32_t>(base_.begin(), base_.begin() + (long) k); }
    std::vector<uint32_t> base_;
    int phase_ = 0;
    size_t idx_ = 0, block_ = 0, dblock_ = 0;
};

// The number of choices grows with rapidcheck's size (a quarter of maxChoices at size 0, all of
// them from size 75 on); every element is a uniform 32-bit value taken from rapidcheck's Random.
static rc::Gen<std::vector<uint32_t>> choiceGen(int maxChoices) {
    return rc::Gen<std::vector<uint32_t>>([=](const rc::Random &random, int size) {
        int count = std::max(1, std::min(maxChoices, maxChoices * (size + 25) / 100));
        rc::Random r = random;
        std::vector<uint32_t> v((size_t) count);
        for (int i = 0; i < count; i += 2) {
            uint64_t x = r.next();
            v[(size_t) i] = (uint32_t) x;
            if (i + 1 < count) v[(size_t) i + 1] = (uint32_t) (x >> 32);
        }
        return rc::shrinkable::shrinkRecur(std::move(v), [](const std::vector<uint32_t> &cur) { return rc::makeSeq<ShrinkSeq>(cur); });
    });
}

long g_shrinkBudget = 30000;

// ---- hang watchdog: a profiling timer (CPU time of this process, so machine load and descheduling do not count) fires
// every 5 s; four consecutive ticks without progress (vfTick) mean that one library call has been running for >= 15 s of
// CPU time where a case takes micro- to milliseconds: the case is dumped like a sanitizer death and the process exits.
static volatile unsigned long g_lastProgress = 0;
static volatile int g_stalled = 0;
static void watchdogTick(int) {
    if (vf_progress != g_lastProgress) { g_lastProgress = vf_progress; g_stalled = 0; return; }
    if (++g_stalled < 4) return;
    const char *m = "HANG: the case in progress has not finished after 20 s of CPU time (the library does not return)\n";
    (void) !write(1, m, strlen(m));
    deathCb();
    _exit(96);
}
static void startWatchdog() {
    struct sigaction sa; memset(&sa, 0, sizeof sa);
    sa.sa_handler = watchdogTick; sa.sa_flags = SA_RESTART;
    sigaction(SIGPROF, &sa, nullptr);
    struct itimerval it; it.it_interval.tv_sec = 5; it.it_interval.tv_usec = 0; it.it_value = it.it_interval;
    setitimer(ITIMER_PROF, &it, nullptr);
}

void runRandom(const Opt &o, Ev &ev, const std::string &sub, int maxChoices, int nCases,
               const std::function<std::string(Src &, Ev &)> &body) {
    using namespace rc;
    detail::TestParams p;
    p.seed = splitmix(o.seed * 0x100000001b3ULL + hashStr(sub) + (uint64_t) o.worker * 7919);
    p.maxSuccess = nCases;
    p.maxSize = 100;
    p.maxDiscardRatio = 10;
    std::vector<uint32_t> lastFail, firstFail;
    std::string lastMsg, firstMsg;
    bool any = false;
    auto gen = choiceGen(maxChoices);
    long shrinkBudget = g_shrinkBudget;   // property executions spent on shrinking; afterwards candidates are declined
    auto prop = [&]() {
        std::vector<uint32_t> v = *gen;
        if (any && --shrinkBudget < 0) return;
        armCase(choicesText(sub, v));
        errno = 0;                 // libc state does not travel from one case to the next: a case that needs a history contains it
        Src s(v);
        std::string m = body(s, ev);
        disarmCase();
        if (!m.empty()) {
            if (!any) { firstFail = v; firstMsg = m; }
            any = true;
            ev.frozen = true;      // everything from here on is shrinking
            lastFail = v;
            lastMsg = m;
            RC_FAIL(m);
        }
    };
    detail::TestMetadata md;
    md.id = sub;
    md.description = sub;
    auto res = detail::checkTestable(prop, md, p);
    (void) res;
    ev.frozen = false;
    if (any) {
        while (!lastFail.empty() && lastFail.back() == 0) lastFail.pop_back();
        std::string path = writeReplay(o, sub, choicesText(sub, lastFail));
        ev.failures.push_back({sub, path, lastMsg});
        // the case as first generated is kept as well: if the failure depended on something outside the case (state the library
        // keeps outside its context, left behind by an earlier case), shrinking can end on a case that does not fail when replayed
        // alone, while the original - which may contain the whole cause - still does
        while (!firstFail.empty() && firstFail.back() == 0) firstFail.pop_back();
        if (firstFail != lastFail) ev.failures.push_back({sub, writeReplay(o, sub, choicesText(sub, firstFail)), firstMsg + "   [the case as first generated, before shrinking]"});
    }
}

static std::string jsonMapU(const std::map<std::string, uint64_t> &m) {
    std::string s = "{";
    bool f = true;
    for (auto &kv : m) { s += (f ? "\"" : ",\"") + jsonEsc(kv.first) + "\":" + std::to_string(kv.second); f = false; }
    return s + "}";
}

int mainWith(int argc, char **argv, const char *prop, std::vector<Sub> subs) {
    setvbuf(stdout, nullptr, _IONBF, 0);
    Opt o;
    o.prop = prop;
    for (int i = 1; i < argc; i++) {
        std::string a = argv[i];
        auto val = [&]() { return std::string(i + 1 < argc ? argv[++i] : ""); };
        if (a == "--tier") o.tier = val();
        else if (a == "--seed") o.seed = strtoull(val().c_str(), nullptr, 10);
        else if (a == "--worker") { std::string w = val(); sscanf(w.c_str(), "%d/%d", &o.worker, &o.workers); }
        else if (a == "--out") o.out = val();
        else if (a == "--replay-dir") o.replayDir = val();
        else if (a == "--replay") o.replayFile = val();
        else if (a == "--hashes") o.hashesOut = val();
        else if (a == "--only") o.only = val();
        else if (a == "--list") { for (auto &s : subs) printf("%s\n", s.name.c_str()); return 0; }
        else { fprintf(stderr, "unknown argument %s\n", a.c_str()); return 2; }
    }
    if (o.seed == 0) o.seed = 1;
    if (__sanitizer_set_death_callback) __sanitizer_set_death_callback(deathCb);
    startWatchdog();

    if (!o.replayFile.empty()) {
        Replay r;
        FILE *f = fopen(o.replayFile.c_str(), "r");
        if (!f) { fprintf(stderr, "cannot open %s\n", o.replayFile.c_str()); return 2; }
        std::string all;
        char buf[65536];
        size_t k;
        while ((k = fread(buf, 1, sizeof buf, f)) > 0) all.append(buf, k);
        fclose(f);
        std::istringstream is(all);
        std::string line;
        while (std::getline(is, line)) {
            size_t e = line.find('=');
            if (e != std::string::npos) r.kv[line.substr(0, e)] = line.substr(e + 1);
        }
        std::string sub = r.get("sub");
        for (auto &s : subs) if (s.name == sub) {
            std::string m = s.replay(r);
            if (m.empty()) { printf("REPLAY-PASS %s\n", sub.c_str()); return 0; }
            printf("REPLAY-FAIL %s: %s\n", sub.c_str(), m.c_str());
            return 1;
        }
        fprintf(stderr, "no sub-check named '%s' in this binary\n", sub.c_str());
        return 2;
    }

    snprintf(curCase().path, sizeof curCase().path, "%s/%s-crash-w%d-%llu.case", o.replayDir.c_str(), prop, o.worker,
             (unsigned long long) o.seed);
    auto t0 = std::chrono::steady_clock::now();
    Ev ev;
    for (auto &s : subs) {
        if (!o.only.empty() && o.only != s.name) continue;
        s.run(o, ev);
    }
    double wall = std::chrono::duration<double>(std::chrono::steady_clock::now() - t0).count();

    if (!o.hashesOut.empty()) {
        FILE *f = fopen(o.hashesOut.c_str(), "wb");
        if (f) {
            std::vector<uint64_t> v(ev.nontrivial.begin(), ev.nontrivial.end());
            if (!v.empty()) fwrite(v.data(), 8, v.size(), f);
            fclose(f);
        }
    }
    std::string j = "{";
    j += "\"prop\":\"" + std::string(prop) + "\",\"tier\":\"" + o.tier + "\",\"seed\":" + std::to_string(o.seed);
    j += ",\"worker\":" + std::to_string(o.worker) + ",\"workers\":" + std::to_string(o.workers);
    j += ",\"evaluations\":" + std::to_string(ev.evaluations);
    j += ",\"nontrivial\":" + std::to_string(ev.nontrivial.size());
    j += ",\"nontrivial_enum\":" + std::to_string(ev.ntEnum);
    j += std::string(",\"saturated\":") + (ev.saturated ? "true" : "false");
    j += ",\"labels\":" + jsonMapU(ev.labels);
    j += ",\"excluded\":" + jsonMapU(ev.excluded);
    j += ",\"info\":{";
    bool first = true;
    for (auto &kv : ev.info) { j += (first ? "\"" : ",\"") + jsonEsc(kv.first) + "\":\"" + jsonEsc(kv.second) + "\""; first = false; }
    j += "},\"exhaustive\":{";
    first = true;
    for (auto &kv : ev.exhaustive) { j += (first ? "\"" : ",\"") + jsonEsc(kv.first) + "\":" + (kv.second ? "true" : "false"); first = false; }
    j += "},\"samples\":[";
    first = true;
    for (auto &s : ev.samples) { j += (first ? "\"" : ",\"") + jsonEsc(s) + "\""; first = false; }
    j += "],\"failures\":[";
    first = true;
    for (auto &fl : ev.failures) {
        j += std::string(first ? "" : ",") + "{\"sub\":\"" + jsonEsc(fl.sub) + "\",\"replay\":\"" + jsonEsc(fl.replay) + "\",\"message\":\"" +
             jsonEsc(fl.message) + "\"}";
        first = false;
    }
    j += "],\"wall_s\":" + fmt("%.3f", wall) + "}\n";
    if (!o.out.empty()) {
        FILE *f = fopen(o.out.c_str(), "w");
        if (f) { fwrite(j.data(), 1, j.size(), f); fclose(f); }
    } else {
        fputs(j.c_str(), stdout);
    }
    for (auto &fl : ev.failures) printf("FAIL sub=%s replay=%s msg=%s\n", fl.sub.c_str(), fl.replay.c_str(), fl.message.c_str());
    return 0;
}

} // namespace vf
