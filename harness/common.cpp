// rapidcheck lives only in this translation unit (it is the expensive header).
#include "common.hpp"
#include <rapidcheck.h>

namespace vf {

void runRandom(const Opt &o, Ev &ev, const std::string &sub, int maxChoices, int nCases,
               const std::function<std::string(Src &, Ev &)> &body) {
    using namespace rc;
    detail::TestParams p;
    p.seed = splitmix(o.seed * 0x100000001b3ULL + hashStr(sub) + (uint64_t) o.worker * 7919);
    p.maxSuccess = nCases;
    p.maxSize = 100;
    p.maxDiscardRatio = 10;
    std::vector<uint32_t> lastFail;
    std::string lastMsg;
    bool any = false;
    // The number of choices grows with rapidcheck's size (a quarter of maxChoices at size 0,
    // all of them from size 75 on); every element is a uniform 32-bit value at every size
    // (resize) so that ranges never collapse.  Fixed-count containers shrink element-wise
    // towards 0, and a zero tail is the same as a shorter sequence (Src yields 0 when exhausted).
    auto gen = gen::withSize([=](int size) {
        int count = std::max(1, std::min(maxChoices, maxChoices * (size + 25) / 100));
        return gen::container<std::vector<uint32_t>>((std::size_t) count, gen::resize(100, gen::arbitrary<uint32_t>()));
    });
    auto prop = [&]() {
        std::vector<uint32_t> v = *gen;
        armCase(choicesText(sub, v));
        Src s(v);
        std::string m = body(s, ev);
        disarmCase();
        if (!m.empty()) {
            any = true;
            ev.frozen = true;      // everything from here on is shrinking
            lastFail = v;
            lastMsg = m;
            RC_FAIL(m);
        }
    };
    detail::TestMetadata md;
    md.id = sub;
    md.description = sub;
    auto res = detail::checkTestable(prop, md, p);
    (void) res;
    ev.frozen = false;
    if (any) {
        while (!lastFail.empty() && lastFail.back() == 0) lastFail.pop_back();
        std::string path = writeReplay(o, sub, choicesText(sub, lastFail));
        ev.failures.push_back({sub, path, lastMsg});
    }
}

static std::string jsonMapU(const std::map<std::string, uint64_t> &m) {
    std::string s = "{";
    bool f = true;
    for (auto &kv : m) { s += (f ? "\"" : ",\"") + jsonEsc(kv.first) + "\":" + std::to_string(kv.second); f = false; }
    return s + "}";
}

int mainWith(int argc, char **argv, const char *prop, std::vector<Sub> subs) {
    setvbuf(stdout, nullptr, _IONBF, 0);
    Opt o;
    o.prop = prop;
    for (int i = 1; i < argc; i++) {
        std::string a = argv[i];
        auto val = [&]() { return std::string(i + 1 < argc ? argv[++i] : ""); };
        if (a == "--tier") o.tier = val();
        else if (a == "--seed") o.seed = strtoull(val().c_str(), nullptr, 10);
        else if (a == "--worker") { std::string w = val(); sscanf(w.c_str(), "%d/%d", &o.worker, &o.workers); }
        else if (a == "--out") o.out = val();
        else if (a == "--replay-dir") o.replayDir = val();
        else if (a == "--replay") o.replayFile = val();
        else if (a == "--hashes") o.hashesOut = val();
        else if (a == "--only") o.only = val();
        else if (a == "--list") { for (auto &s : subs) printf("%s\n", s.name.c_str()); return 0; }
        else { fprintf(stderr, "unknown argument %s\n", a.c_str()); return 2; }
    }
    if (o.seed == 0) o.seed = 1;
    __sanitizer_set_death_callback(deathCb);

    if (!o.replayFile.empty()) {
        Replay r;
        FILE *f = fopen(o.replayFile.c_str(), "r");
        if (!f) { fprintf(stderr, "cannot open %s\n", o.replayFile.c_str()); return 2; }
        std::string all;
        char buf[65536];
        size_t k;
        while ((k = fread(buf, 1, sizeof buf, f)) > 0) all.append(buf, k);
        fclose(f);
        std::istringstream is(all);
        std::string line;
        while (std::getline(is, line)) {
            size_t e = line.find('=');
            if (e != std::string::npos) r.kv[line.substr(0, e)] = line.substr(e + 1);
        }
        std::string sub = r.get("sub");
        for (auto &s : subs) if (s.name == sub) {
            std::string m = s.replay(r);
            if (m.empty()) { printf("REPLAY-PASS %s\n", sub.c_str()); return 0; }
            printf("REPLAY-FAIL %s: %s\n", sub.c_str(), m.c_str());
            return 1;
        }
        fprintf(stderr, "no sub-check named '%s' in this binary\n", sub.c_str());
        return 2;
    }

    snprintf(curCase().path, sizeof curCase().path, "%s/%s-crash-w%d-%llu.case", o.replayDir.c_str(), prop, o.worker,
             (unsigned long long) o.seed);
    auto t0 = std::chrono::steady_clock::now();
    Ev ev;
    for (auto &s : subs) {
        if (!o.only.empty() && o.only != s.name) continue;
        s.run(o, ev);
    }
    double wall = std::chrono::duration<double>(std::chrono::steady_clock::now() - t0).count();

    if (!o.hashesOut.empty()) {
        FILE *f = fopen(o.hashesOut.c_str(), "wb");
        if (f) {
            std::vector<uint64_t> v(ev.nontrivial.begin(), ev.nontrivial.end());
            if (!v.empty()) fwrite(v.data(), 8, v.size(), f);
            fclose(f);
        }
    }
    std::string j = "{";
    j += "\"prop\":\"" + std::string(prop) + "\",\"tier\":\"" + o.tier + "\",\"seed\":" + std::to_string(o.seed);
    j += ",\"worker\":" + std::to_string(o.worker) + ",\"workers\":" + std::to_string(o.workers);
    j += ",\"evaluations\":" + std::to_string(ev.evaluations);
    j += ",\"nontrivial\":" + std::to_string(ev.nontrivial.size());
    j += ",\"nontrivial_enum\":" + std::to_string(ev.ntEnum);
    j += std::string(",\"saturated\":") + (ev.saturated ? "true" : "false");
    j += ",\"labels\":" + jsonMapU(ev.labels);
    j += ",\"excluded\":" + jsonMapU(ev.excluded);
    j += ",\"info\":{";
    bool first = true;
    for (auto &kv : ev.info) { j += (first ? "\"" : ",\"") + jsonEsc(kv.first) + "\":\"" + jsonEsc(kv.second) + "\""; first = false; }
    j += "},\"exhaustive\":{";
    first = true;
    for (auto &kv : ev.exhaustive) { j += (first ? "\"" : ",\"") + jsonEsc(kv.first) + "\":" + (kv.second ? "true" : "false"); first = false; }
    j += "},\"samples\":[";
    first = true;
    for (auto &s : ev.samples) { j += (first ? "\"" : ",\"") + jsonEsc(s) + "\""; first = false; }
    j += "],\"failures\":[";
    first = true;
    for (auto &fl : ev.failures) {
        j += std::string(first ? "" : ",") + "{\"sub\":\"" + jsonEsc(fl.sub) + "\",\"replay\":\"" + jsonEsc(fl.replay) + "\",\"message\":\"" +
             jsonEsc(fl.message) + "\"}";
        first = false;
    }
    j += "],\"wall_s\":" + fmt("%.3f", wall) + "}\n";
    if (!o.out.empty()) {
        FILE *f = fopen(o.out.c_str(), "w");
        if (f) { fwrite(j.data(), 1, j.size(), f); fclose(f); }
    } else {
        fputs(j.c_str(), stdout);
    }
    for (auto &fl : ev.failures) printf("FAIL sub=%s replay=%s msg=%s\n", fl.sub.c_str(), fl.replay.c_str(), fl.message.c_str());
    return 0;
}

} // namespace vf
