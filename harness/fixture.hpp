// Instrument fixture: one scpi_t with exact-size heap buffers, a per-case command
// table whose entries point at one scripted handler, and a trace of everything
// observable (handler entries, delivered values, writes, flushes, error and
// control callbacks, return values).  Nothing is shared between cases.
#pragma once
#include "common.hpp"
#include "xbuf.hpp"
#include "scpi_all.hpp"
#include <memory>
#include <cmath>

namespace vf {

enum RKind { R_I32, R_U32, R_I64, R_U64, R_F32, R_F64, R_NUM, R_BOOL, R_CHOICE, R_CHARS, R_TEXT, R_BLOCK,
             R_ARR_I32, R_ARR_U32, R_ARR_I64, R_ARR_U64, R_ARR_F32, R_ARR_F64, R_EXPR_NUM, R_EXPR_CHAN, R_RAW, R_KINDS };
static const char *const kRName[] = {"i32", "u32", "i64", "u64", "f32", "f64", "num", "bool", "choice", "chars", "text", "block",
                                     "ai32", "au32", "ai64", "au64", "af32", "af64", "exprnum", "exprchan", "raw"};

struct Reader {
    RKind kind = R_I32;
    bool mandatory = true;
    int n = 1;          // array capacity / text buffer length / channel capacity / number of indexes queried
};

enum OKind { O_I8, O_U8, O_I16, O_U16, O_I32, O_U32, O_I64, O_U64, O_BOOL, O_F32, O_F64, O_MNEM, O_TEXT, O_BLOCK, O_BLOCKHDR, O_BLOCKDATA,
             O_ARR, O_ERRPUSH, O_KINDS, O_UNIT = 99 /* c17: next unit of a compound message */ };

struct OItem {
    OKind kind = O_I32;
    int base = 10;            // unsigned integers
    uint64_t u = 0;           // integer / bool value, block header length
    double d = 0;             // float / double
    std::string s;            // mnemonic, text, block bytes
    // arrays
    int elem = 0;             // 0..9: i8 u8 i16 u16 i32 u32 i64 u64 f32 f64
    int format = 0;           // scpi_array_format_t
    std::vector<uint64_t> arr;  // raw bit patterns of the elements
    int code = 0;             // O_ERRPUSH
};

struct Script {
    std::vector<Reader> readers;
    std::vector<OItem> items;
    bool retOk = true;
    bool noHandler = false;   // the table entry has a NULL callback
    int numbers = 0;          // > 0: call SCPI_CommandNumbers with that many slots
    int32_t numDefault = -7;
    std::vector<std::string> isCmdProbes;
    bool probeSelf = false;   // call SCPI_IsCmd with the effective header the handler sees
};

struct Cmd {
    std::string pattern;
    int lib = -1;             // >= 0: index into the table of library handlers, else scripted
    Script script;
};

struct InstCfg {
    size_t bufLen = 256;
    int queueLen = 16;
    size_t heapLen = 64;      // cfg heap only
    std::vector<Cmd> cmds;
    bool traceValues = true;
    // a second, independent instrument in the same process: same command table, another unit table (every shipped suffix
    // name bound to the unit and multiplier of a different entry), own buffers.  It is fed every chunk the instrument under
    // test is about to receive, then a lone CR, right before each SCPI_Input call; its command table holds the same entries
    // at other positions.  Nothing it does may change what the
    // instrument under test does: the library keeps its state in the context.
    bool decoy = false;
    bool noOptionalCallbacks = false;          // flush, control and reset callbacks absent (they are optional; write and - for the harness - error stay)
    int controlAction = 0;                     // what the control callback does when a service request is announced: 0 nothing, 1 reads and clears ESR,
                                               // 2 disarms SRE, 3 pushes an error, 4 pops an error (a callback may call the public API; not re-entered while it runs)
    int idnVariant = 0;                        // identification strings handed to SCPI_Init: 0 short, 1 long (the response exceeds 72 characters), 2 with NULL fields
    int writePushesError = 0;                  // != 0: the write callback queues this error code on its own context, once per SCPI_Input call
    bool errorCallbackConsumes = false;        // the error callback pops the error it is told about (it only gets the code; the record has to be popped)
    int controlReturns = 0;                    // what the control callback returns: 0 OK, 1 SCPI_RES_ERR (a transport that could not deliver the request)
    const scpi_unit_def_t *units = nullptr;   // nullptr = the shipped table
};

inline const scpi_unit_def_t *decoyUnits() {
    static std::vector<scpi_unit_def_t> t;
    if (t.empty()) {
        size_t n = 0; while (scpi_units_def[n].name) n++;
        for (size_t i = 0; i < n; i++) { scpi_unit_def_t e = scpi_units_def[i]; const scpi_unit_def_t &o = scpi_units_def[(i + 7) % n]; e.unit = o.unit; e.mult = o.mult * 3; t.push_back(e); }
        scpi_unit_def_t end = SCPI_UNITS_LIST_END; t.push_back(end);
    }
    return t.data();
}

// special choice list used by R_CHOICE
static const scpi_choice_def_t kChoices[] = {{"ALPHa", 1}, {"BETA", 2}, {"GAMMa", 3}, {"D", 4}, SCPI_CHOICE_LIST_END};

struct LibHandler { const char *name; scpi_command_callback_t fn; };
static const LibHandler kLibHandlers[] = {
    {"CLS", SCPI_CoreCls}, {"ESE", SCPI_CoreEse}, {"ESEQ", SCPI_CoreEseQ}, {"ESRQ", SCPI_CoreEsrQ}, {"IDNQ", SCPI_CoreIdnQ},
    {"OPC", SCPI_CoreOpc}, {"OPCQ", SCPI_CoreOpcQ}, {"RST", SCPI_CoreRst}, {"SRE", SCPI_CoreSre}, {"SREQ", SCPI_CoreSreQ},
    {"STBQ", SCPI_CoreStbQ}, {"TSTQ", SCPI_CoreTstQ}, {"WAI", SCPI_CoreWai},
    {"ERRNEXTQ", SCPI_SystemErrorNextQ}, {"ERRCOUNTQ", SCPI_SystemErrorCountQ}, {"VERSQ", SCPI_SystemVersionQ},
    {"QUESEVQ", SCPI_StatusQuestionableEventQ}, {"QUESCONDQ", SCPI_StatusQuestionableConditionQ}, {"QUESENA", SCPI_StatusQuestionableEnable},
    {"QUESENAQ", SCPI_StatusQuestionableEnableQ}, {"OPEREVQ", SCPI_StatusOperationEventQ}, {"OPERCONDQ", SCPI_StatusOperationConditionQ},
    {"OPERENA", SCPI_StatusOperationEnable}, {"OPERENAQ", SCPI_StatusOperationEnableQ}, {"PRES", SCPI_StatusPreset},
    {"STUB", SCPI_Stub}, {"STUBQ", SCPI_StubQ},
};
static const int kNLib = sizeof kLibHandlers / sizeof kLibHandlers[0];
inline int libIndex(const char *name) { for (int i = 0; i < kNLib; i++) if (!strcmp(kLibHandlers[i].name, name)) return i; return -1; }

struct Inst {
    scpi_t ctx;
    scpi_interface_t ifc;
    InstCfg cfg;
    std::unique_ptr<XBuf> inbuf, qbuf, heapbuf, tableBuf;
    std::vector<scpi_command_t> table;
    std::vector<std::string> trace;   // one line per observable event
    std::string out;                  // all bytes written
    int flushes = 0, resets = 0;
    std::vector<int> errors;          // error callback codes
    std::vector<std::pair<int, int>> controls;
    int handlerCalls = 0;
    bool inControl = false, inErrorCb = false;
    int repush = 0, repushed = 0;     // see cbError
    bool wrotePush = false;
    bool inPoke = false; int writePokes = 0; std::string lastChunk;   // see cbWrite / scripted
    std::unique_ptr<Inst> decoy;      // see InstCfg::decoy
    std::string invariant;            // first violated structural invariant ("" = none)
    // state sampled inside the most recent handler (for C09 non-trivial classification)
    int lastHandlerTag = 0;

    static size_t cbWrite(scpi_t *c, const char *d, size_t n) {
        Inst *me = (Inst *) c->user_context;
        // a transport that services its other connection while it waits for room: the second instrument runs the same
        // chunk again from inside this instrument's write callback, BEFORE the bytes handed over here are taken
        // a transport that reports a transmit problem by queueing an error from inside the write callback (once per input call)
        if (me->cfg.writePushesError && !me->wrotePush) { me->wrotePush = true; SCPI_ErrorPush(c, (int16_t) me->cfg.writePushesError); }
        if (me->decoy && !me->inPoke && me->writePokes < 2) { me->writePokes++; me->inPoke = true; me->feedDecoy(me->lastChunk.data(), (int) me->lastChunk.size()); me->inPoke = false; }
        me->out.append(d, n);
        me->trace.push_back("W:" + vis(std::string(d, n)));
        return n;
    }
    static scpi_result_t cbFlush(scpi_t *c) {
        Inst *me = (Inst *) c->user_context;
        me->flushes++;
        me->trace.push_back("F");
        return SCPI_RES_OK;
    }
    static int cbError(scpi_t *c, int_fast16_t e) {
        Inst *me = (Inst *) c->user_context;
        me->errors.push_back((int) e);
        me->trace.push_back(fmt("E:%d", (int) e));
        // an application that keeps a backlog of its own and re-queues from it when told that the queue has run empty
        if (e != 0 && me->cfg.errorCallbackConsumes && !me->inErrorCb) { me->inErrorCb = true; scpi_error_t x; SCPI_ErrorPop(c, &x); SCPIDEFINE_free(&c->error_info_heap, x.device_dependent_info, false); me->inErrorCb = false; }
        if (e == 0 && me->repush > 0 && SCPI_ErrorCount(c) == 0) { me->repush--; me->repushed++; char t[24]; snprintf(t, sizeof t, "again%d", me->repushed); SCPI_ErrorPushEx(c, (int16_t) (-330 - me->repushed), t, 0); }
        return 0;
    }
    static scpi_result_t cbControl(scpi_t *c, scpi_ctrl_name_t ctrl, scpi_reg_val_t v) {
        Inst *me = (Inst *) c->user_context;
        me->controls.push_back({(int) ctrl, (int) v});
        me->trace.push_back(fmt("C:%d:%d:stb=%d", (int) ctrl, (int) v, (int) SCPI_RegGet(c, SCPI_REG_STB)));
        if (ctrl == SCPI_CTRL_SRQ && me->cfg.controlAction && !me->inControl) {
            me->inControl = true;
            switch (me->cfg.controlAction) {
                case 1: (void) SCPI_RegGet(c, SCPI_REG_ESR); SCPI_RegSet(c, SCPI_REG_ESR, 0); break;
                case 2: SCPI_RegSet(c, SCPI_REG_SRE, 0); break;
                case 3: SCPI_ErrorPush(c, -310); break;
                default: { scpi_error_t e; SCPI_ErrorPop(c, &e); SCPIDEFINE_free(&c->error_info_heap, e.device_dependent_info, false); break; }   // 4: takes the oldest error out of the queue
            }
            me->inControl = false;
        }
        return me->cfg.controlReturns ? SCPI_RES_ERR : SCPI_RES_OK;
    }
    static scpi_result_t cbReset(scpi_t *c) {
        Inst *me = (Inst *) c->user_context;
        me->resets++;
        me->trace.push_back("RST");
        return SCPI_RES_OK;
    }
    static scpi_result_t scripted(scpi_t *c);

    explicit Inst(const InstCfg &k) : cfg(k) {
        inbuf.reset(new XBuf(cfg.bufLen, 0xEE));
        qbuf.reset(new XBuf(sizeof(scpi_error_t) * (size_t) cfg.queueLen, 0xEE));
        for (size_t i = 0; i < cfg.cmds.size(); i++) {
            scpi_command_t e;
            e.pattern = cfg.cmds[i].pattern.c_str();
            e.callback = cfg.cmds[i].lib >= 0 ? kLibHandlers[cfg.cmds[i].lib].fn : cfg.cmds[i].script.noHandler ? (scpi_command_callback_t) nullptr : scripted;
            e.tag = (int32_t) i + 1;
            table.push_back(e);
        }
        scpi_command_t end = SCPI_CMD_LIST_END;
        table.push_back(end);
        // the command list is handed over in an exact-size block: a read behind its end marker traps
        tableBuf.reset(new XBuf(sizeof(scpi_command_t) * table.size()));
        memcpy(tableBuf->p, table.data(), sizeof(scpi_command_t) * table.size());
        ifc.error = cbError; ifc.write = cbWrite; ifc.control = cbControl; ifc.flush = cbFlush; ifc.reset = cbReset;
        if (cfg.noOptionalCallbacks) { ifc.control = nullptr; ifc.flush = nullptr; ifc.reset = nullptr; }
        static const char *const kIdn[3][4] = {{"MANU", "MODEL", nullptr, "01-02"},
            {"Measurement and Instrumentation Works Ltd", "Precision Source Measure Unit 2450-X", "2f1c9e4a-7b3d-4e1a-9c55-0a1b2c3d4e5f", "fw 10.12.3-rc4+build.20260930 (bootloader 2.1)"},
            {nullptr, "M", nullptr, nullptr}};
        const char *const *idn = kIdn[cfg.idnVariant % 3];
        SCPI_Init(&ctx, (const scpi_command_t *) tableBuf->p, &ifc, cfg.units ? cfg.units : scpi_units_def, idn[0], idn[1], idn[2], idn[3], inbuf->p, cfg.bufLen,
                  (scpi_error_t *) qbuf->p, (int16_t) cfg.queueLen);
#if USE_DEVICE_DEPENDENT_ERROR_INFORMATION && !USE_MEMORY_ALLOCATION_FREE
        heapbuf.reset(new XBuf(cfg.heapLen, 0xEE));
        SCPI_InitHeap(&ctx, heapbuf->p, cfg.heapLen);
#endif
        ctx.user_context = this;
        if (cfg.decoy) {
            InstCfg d = cfg; d.decoy = false; d.units = decoyUnits(); d.traceValues = false;
            if (d.cmds.size() >= 2) std::rotate(d.cmds.begin(), d.cmds.begin() + 1, d.cmds.end());      // same commands at other table positions ...
            if (d.cmds.size() >= 4) d.cmds.resize(d.cmds.size() / 2);                                      // ... in a table half as long
            decoy.reset(new Inst(d));
        }
    }
    Inst(const Inst &) = delete;
    ~Inst() { SCPI_ErrorClear(&ctx); }   // releases device-dependent texts (malloc cfg)

    void checkInvariants(const char *where) {
        if (!invariant.empty()) return;
        if (!(ctx.buffer.position < ctx.buffer.length)) invariant = fmt("%s: buffer.position %zu not < length %zu", where, ctx.buffer.position, ctx.buffer.length);
        // (the ring indices themselves are representation: only what the public API reports is bounded here)
        else if (SCPI_ErrorCount(&ctx) < 0 || SCPI_ErrorCount(&ctx) > cfg.queueLen) invariant = fmt("%s: SCPI_ErrorCount %d outside 0..%d", where, (int) SCPI_ErrorCount(&ctx), cfg.queueLen);
        if (!inbuf->ok() || !qbuf->ok() || (heapbuf && !heapbuf->ok())) invariant = std::string(where) + ": canary after a library buffer overwritten";
    }
    unsigned inputCalls = 0;
    void feedDecoy(const char *d, int n) { decoy->input(d, n); decoy->input("\r", 1); decoy->trace.clear(); decoy->out.clear(); decoy->errors.clear(); decoy->controls.clear(); SCPI_ErrorClear(&decoy->ctx); }
    bool input(const std::string &bytes) { return input(bytes.data(), (int) bytes.size()); }
    bool input(const char *d, int n) {
        wrotePush = false;
        if (decoy) { lastChunk.assign(d, (size_t) n); writePokes = 0; }
        bool decoyAfter = decoy && (inputCalls++ & 1);      // alternately before and after the call under test, so that state can leak in either direction
        if (decoy && !decoyAfter) feedDecoy(d, n);
        // the chunk is handed over in an exact-size heap copy so that over-reads of the caller's data trap
        XBuf copy((size_t) n);
        if (n) memcpy(copy.p, d, (size_t) n);
        bool r = SCPI_Input(&ctx, copy.p, n);
        trace.push_back(fmt("R:%d", (int) r));
        checkInvariants("SCPI_Input");
        if (decoyAfter) feedDecoy(d, n);
        return r;
    }
    std::string pending() const { return std::string(ctx.buffer.data, ctx.buffer.position); }
    // pops the whole queue through the public API; returns "code[:text]" entries
    std::vector<std::string> drainErrors() {
        std::vector<std::string> v;
        while (SCPI_ErrorCount(&ctx) > 0) {
            scpi_error_t e;
            SCPI_ErrorPop(&ctx, &e);
            std::string s = fmt("%d", (int) e.error_code);
#if USE_DEVICE_DEPENDENT_ERROR_INFORMATION
            if (e.device_dependent_info) {
#if USE_MEMORY_ALLOCATION_FREE
                s += ":" + std::string(e.device_dependent_info);
#else
                const char *p2; size_t l1, l2;
                if (scpiheap_get_parts(&ctx.error_info_heap, e.device_dependent_info, &l1, &p2, &l2))
                    s += ":" + std::string(e.device_dependent_info, l1) + (p2 ? std::string(p2, l2) : std::string());
#endif
                SCPIDEFINE_free(&ctx.error_info_heap, e.device_dependent_info, false);
            }
#endif
            v.push_back(s);
        }
        return v;
    }
    std::string regs() {
        std::string s;
        for (int r = 0; r < SCPI_REG_COUNT; r++) s += fmt("%s%d", r ? "," : "", (int) SCPI_RegGet(&ctx, (scpi_reg_name_t) r));
        return s;
    }
};

inline std::string bitsD(double d) { uint64_t u; memcpy(&u, &d, 8); return fmt("%016llx", (unsigned long long) u); }
inline std::string bitsF(float f) { uint32_t u; memcpy(&u, &f, 4); return fmt("%08x", u); }

inline void emitItem(scpi_t *c, const OItem &it) {
    switch (it.kind) {
        case O_I8: SCPI_ResultInt8(c, (int8_t) it.u); break;
        case O_U8: SCPI_ResultUInt8Base(c, (uint8_t) it.u, it.base); break;
        case O_I16: SCPI_ResultInt16(c, (int16_t) it.u); break;
        case O_U16: SCPI_ResultUInt16Base(c, (uint16_t) it.u, (int8_t) it.base); break;
        case O_I32: SCPI_ResultInt32(c, (int32_t) it.u); break;
        case O_U32: SCPI_ResultUInt32Base(c, (uint32_t) it.u, (int8_t) it.base); break;
        case O_I64: SCPI_ResultInt64(c, (int64_t) it.u); break;
        case O_U64: SCPI_ResultUInt64Base(c, it.u, (int8_t) it.base); break;
        case O_BOOL: SCPI_ResultBool(c, it.u != 0); break;
        case O_F32: SCPI_ResultFloat(c, (float) it.d); break;
        case O_F64: SCPI_ResultDouble(c, it.d); break;
        case O_MNEM: SCPI_ResultCharacters(c, it.s.data(), it.s.size()); break;
        case O_TEXT: SCPI_ResultText(c, it.s.c_str()); break;
        case O_BLOCK: { XBuf b(it.s.size()); if (!it.s.empty()) memcpy(b.p, it.s.data(), it.s.size()); SCPI_ResultArbitraryBlock(c, b.p, it.s.size()); break; }
        case O_BLOCKHDR: SCPI_ResultArbitraryBlockHeader(c, (size_t) it.u); break;
        case O_BLOCKDATA: { XBuf b(it.s.size()); if (!it.s.empty()) memcpy(b.p, it.s.data(), it.s.size()); SCPI_ResultArbitraryBlockData(c, b.p, it.s.size()); break; }
        case O_ERRPUSH: SCPI_ErrorPush(c, (int16_t) it.code); break;
        case O_ARR: {
            size_t n = it.arr.size();
            static const size_t esz[] = {1, 1, 2, 2, 4, 4, 8, 8, 4, 8};
            std::string raw(n * esz[it.elem], '\0');
            for (size_t i = 0; i < n; i++) memcpy(&raw[i * esz[it.elem]], &it.arr[i], esz[it.elem]);   // little-endian host: low bytes
            RoBuf b(raw.data(), raw.size());          // the array is const to the library: read-only memory, nothing readable behind it (8-byte granularity)
            scpi_array_format_t f = (scpi_array_format_t) it.format;
            switch (it.elem) {
                case 0: SCPI_ResultArrayInt8(c, (const int8_t *) b.p, n, f); break;
                case 1: SCPI_ResultArrayUInt8(c, (const uint8_t *) b.p, n, f); break;
                case 2: SCPI_ResultArrayInt16(c, (const int16_t *) b.p, n, f); break;
                case 3: SCPI_ResultArrayUInt16(c, (const uint16_t *) b.p, n, f); break;
                case 4: SCPI_ResultArrayInt32(c, (const int32_t *) b.p, n, f); break;
                case 5: SCPI_ResultArrayUInt32(c, (const uint32_t *) b.p, n, f); break;
                case 6: SCPI_ResultArrayInt64(c, (const int64_t *) b.p, n, f); break;
                case 7: SCPI_ResultArrayUInt64(c, (const uint64_t *) b.p, n, f); break;
                case 8: SCPI_ResultArrayFloat(c, (const float *) b.p, n, f); break;
                default: SCPI_ResultArrayDouble(c, (const double *) b.p, n, f); break;
            }
            break;
        }
        default: break;
    }
}

// runs one reader; appends a "V:" line; returns what the library returned
inline bool runReader(Inst *me, scpi_t *c, const Reader &r) {
    bool ok = false;
    std::string v;
    scpi_bool_t mand = r.mandatory;
    switch (r.kind) {
        case R_I32: { int32_t x = 0x5a5a5a5a; ok = SCPI_ParamInt32(c, &x, mand); if (ok) v = fmt("%d", x); break; }
        case R_U32: { uint32_t x = 0x5a5a5a5a; ok = SCPI_ParamUInt32(c, &x, mand); if (ok) v = fmt("%u", x); break; }
        case R_I64: { int64_t x = 0x5a5a5a5a5a5a5a5aLL; ok = SCPI_ParamInt64(c, &x, mand); if (ok) v = fmt("%lld", (long long) x); break; }
        case R_U64: { uint64_t x = 0x5a5a5a5a5a5a5a5aULL; ok = SCPI_ParamUInt64(c, &x, mand); if (ok) v = fmt("%llu", (unsigned long long) x); break; }
        case R_F32: { float x = -12345.5f; ok = SCPI_ParamFloat(c, &x, mand); if (ok) v = bitsF(x); break; }
        case R_F64: { double x = -12345.5; ok = SCPI_ParamDouble(c, &x, mand); if (ok) v = bitsD(x); break; }
        case R_NUM: {
            scpi_number_t x; memset(&x, 0x5a, sizeof x);
            ok = SCPI_ParamNumber(c, scpi_special_numbers_def, &x, mand);
            if (ok) v = x.special ? fmt("special:%d:base%d", (int) x.content.tag, (int) x.base) : fmt("%s:unit%d:base%d", bitsD(x.content.value).c_str(), (int) x.unit, (int) x.base);
            break;
        }
        case R_BOOL: { scpi_bool_t x = 0; ok = SCPI_ParamBool(c, &x, mand); if (ok) v = x ? "1" : "0"; break; }
        case R_CHOICE: { int32_t x = -99; ok = SCPI_ParamChoice(c, kChoices, &x, mand); if (ok) v = fmt("%d", x); break; }
        case R_CHARS: { const char *p = nullptr; size_t l = 0; ok = SCPI_ParamCharacters(c, &p, &l, mand); if (ok) v = hexEnc(std::string(p, l)); break; }
        case R_BLOCK: { const char *p = nullptr; size_t l = 0; ok = SCPI_ParamArbitraryBlock(c, &p, &l, mand); if (ok) v = hexEnc(std::string(p, l)); break; }
        case R_TEXT: {
            XBuf b((size_t) r.n, 0x7e);
            size_t cl = 9999;
            ok = SCPI_ParamCopyText(c, b.p, (size_t) r.n, &cl, mand);
            if (ok) {
                v = fmt("%zu:", cl) + hexEnc(std::string(b.p, std::min(cl, (size_t) r.n)));
                if (cl < (size_t) r.n && b.p[cl] != 0) v += ":noNUL";
                if (!b.ok()) me->invariant = "SCPI_ParamCopyText wrote past the buffer";
            }
            break;
        }
        case R_ARR_I32: case R_ARR_U32: case R_ARR_I64: case R_ARR_U64: case R_ARR_F32: case R_ARR_F64: {
            size_t es = (r.kind == R_ARR_I32 || r.kind == R_ARR_U32 || r.kind == R_ARR_F32) ? 4 : 8;
            XBuf b(es * (size_t) r.n, 0x5a);
            size_t oc = 9999;
            switch (r.kind) {
                case R_ARR_I32: ok = SCPI_ParamArrayInt32(c, (int32_t *) b.p, (size_t) r.n, &oc, SCPI_FORMAT_ASCII, mand); break;
                case R_ARR_U32: ok = SCPI_ParamArrayUInt32(c, (uint32_t *) b.p, (size_t) r.n, &oc, SCPI_FORMAT_ASCII, mand); break;
                case R_ARR_I64: ok = SCPI_ParamArrayInt64(c, (int64_t *) b.p, (size_t) r.n, &oc, SCPI_FORMAT_ASCII, mand); break;
                case R_ARR_U64: ok = SCPI_ParamArrayUInt64(c, (uint64_t *) b.p, (size_t) r.n, &oc, SCPI_FORMAT_ASCII, mand); break;
                case R_ARR_F32: ok = SCPI_ParamArrayFloat(c, (float *) b.p, (size_t) r.n, &oc, SCPI_FORMAT_ASCII, mand); break;
                default: ok = SCPI_ParamArrayDouble(c, (double *) b.p, (size_t) r.n, &oc, SCPI_FORMAT_ASCII, mand); break;
            }
            v = fmt("%zu:", oc);
            for (size_t i = 0; i < oc && i < (size_t) r.n; i++) {
                if (r.kind == R_ARR_I32) v += fmt("%d,", ((int32_t *) b.p)[i]);
                else if (r.kind == R_ARR_U32) v += fmt("%u,", ((uint32_t *) b.p)[i]);
                else if (r.kind == R_ARR_I64) v += fmt("%lld,", (long long) ((int64_t *) b.p)[i]);
                else if (r.kind == R_ARR_U64) v += fmt("%llu,", (unsigned long long) ((uint64_t *) b.p)[i]);
                else if (r.kind == R_ARR_F32) v += bitsF(((float *) b.p)[i]) + ",";
                else v += bitsD(((double *) b.p)[i]) + ",";
            }
            if (!b.ok()) me->invariant = "SCPI_ParamArray* wrote past the array";
            break;
        }
        case R_EXPR_NUM: case R_EXPR_CHAN: case R_RAW: {
            scpi_parameter_t p;
            ok = SCPI_Parameter(c, &p, mand);
            if (ok) {
                v = fmt("type%d:", (int) p.type) + hexEnc(std::string(p.ptr, (size_t) p.len));
                if (r.kind == R_EXPR_NUM) {
                    for (int i = 0; i < 4; i++) {
                        scpi_bool_t rng = 0; scpi_parameter_t a, b;
                        scpi_expr_result_t e = SCPI_ExprNumericListEntry(c, &p, i, &rng, &a, &b);
                        v += fmt("|%d", (int) e);
                        if (e == SCPI_EXPR_OK) { v += fmt(":%d:", (int) rng) + hexEnc(std::string(a.ptr, (size_t) a.len)); if (rng) v += "-" + hexEnc(std::string(b.ptr, (size_t) b.len)); }
                        int32_t ia = 0, ib = 0; double da = 0, db = 0;
                        SCPI_ExprNumericListEntryInt(c, &p, i, &rng, &ia, &ib);
                        SCPI_ExprNumericListEntryDouble(c, &p, i, &rng, &da, &db);
                        if (e != SCPI_EXPR_OK) break;
                    }
                } else if (r.kind == R_EXPR_CHAN) {
                    size_t cap = (size_t) r.n;
                    XBuf fb(cap * 4, 0x5a), tb(cap * 4, 0x5a);
                    for (int i = 0; i < 4; i++) {
                        scpi_bool_t rng = 0; size_t dims = 0;
                        scpi_expr_result_t e = SCPI_ExprChannelListEntry(c, &p, i, &rng, (int32_t *) fb.p, (int32_t *) tb.p, cap, &dims);
                        v += fmt("|%d", (int) e);
                        if (e == SCPI_EXPR_OK) { v += fmt(":%d:%zu:", (int) rng, dims); for (size_t k = 0; k < std::min(cap, dims); k++) v += fmt("%d,", ((int32_t *) fb.p)[k]); }
                        if (!fb.ok() || !tb.ok()) me->invariant = "SCPI_ExprChannelListEntry wrote past the value arrays";
                        if (e != SCPI_EXPR_OK) break;
                    }
                }
            }
            break;
        }
        default: break;
    }
    if (me->cfg.traceValues) me->trace.push_back(fmt("V:%s:%d:%d:", kRName[r.kind], (int) ok, (int) SCPI_ParamErrorOccurred(c)) + v);
    return ok;
}

inline scpi_result_t Inst::scripted(scpi_t *c) {
    Inst *me = (Inst *) c->user_context;
    int tag = SCPI_CmdTag(c);
    me->handlerCalls++;
    me->lastHandlerTag = tag;
    std::string raw(c->param_list.cmd_raw.data, c->param_list.cmd_raw.length);
    me->trace.push_back(fmt("H:%d:", tag) + raw);
    if (tag < 1 || tag > (int) me->cfg.cmds.size()) { me->invariant = "handler entered with a tag outside the table"; return SCPI_RES_ERR; }
    const Script &s = me->cfg.cmds[(size_t) tag - 1].script;
    if (me->decoy && !me->inPoke) {
        // a handler that talks to the second instrument before it looks at its own command: the same header with every digit
        // changed, so that anything remembered about "the current command" outside the context would now be the other one's
        std::string h = raw; for (char &ch : h) if (ch >= '0' && ch <= '9') ch = (char) ('0' + (ch - '0' + 1) % 10);
        h += " 1\n";
        me->inPoke = true; me->feedDecoy(h.data(), (int) h.size()); me->inPoke = false;
    }
    if (s.numbers > 0) {
        std::vector<int32_t> nums((size_t) s.numbers + 1, 0x5a5a5a5a);
        XBuf nb(4 * (size_t) s.numbers, 0x5a);
        scpi_bool_t ok = SCPI_CommandNumbers(c, (int32_t *) nb.p, (size_t) s.numbers, s.numDefault);
        std::string v = fmt("N:%d:", (int) ok);
        for (int i = 0; i < s.numbers; i++) v += fmt("%d,", ((int32_t *) nb.p)[i]);
        me->trace.push_back(v);
        if (!nb.ok()) me->invariant = "SCPI_CommandNumbers wrote past the array";
    }
    for (auto &p : s.isCmdProbes) me->trace.push_back(fmt("I:%d:", (int) SCPI_IsCmd(c, p.c_str())) + p);
    if (s.probeSelf) me->trace.push_back(fmt("I:%d:", (int) SCPI_IsCmd(c, raw.c_str())) + raw);
    for (auto &r : s.readers) {
        bool ok = runReader(me, c, r);
        if (!ok) {
            if (!r.mandatory && !SCPI_ParamErrorOccurred(c)) continue;   // optional and absent
            return SCPI_RES_ERR;
        }
    }
    for (auto &it : s.items) emitItem(c, it);
    return s.retOk ? SCPI_RES_OK : SCPI_RES_ERR;
}

} // namespace vf
