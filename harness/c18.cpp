// C18 - the error query always yields one well-formed, bounded error response.
// Oracle: independent encoder (longest prefix of "description;text" whose escaped
// form is <= 255 characters, quotes doubled) + independent 488.2 string reader.
#include "fixture.hpp"
using namespace vf;

#define VF_HEAPCFG (USE_DEVICE_DEPENDENT_ERROR_INFORMATION && !USE_MEMORY_ALLOCATION_FREE)

static const char *describeCode(int code) {
    switch (code) {
#define X(def, val, str) case val: return str;
#define XE X
        LIST_OF_ERRORS
#if USE_USER_ERROR_LIST
        LIST_OF_USER_ERRORS
#endif
#undef X
#undef XE
        default: return "Unknown error";
    }
}

struct EC {
    int code = -113;
    std::string text;
    bool hasText = true;
    size_t infoLen = 0;      // 0 = automatic
    int wrapAt = -1;         // heap cfg: >= 0 places the text so that it wraps after that many bytes
    int follow = 0;          // 1: another error with a short text is queued behind the one under test before it is queried
};
static std::string describe(const EC &c) {
    return fmt("code=%d hasText=%d infoLen=%zu wrapAt=%d follow=%d textLen=%zu text=", c.code, (int) c.hasText, c.infoLen, c.wrapAt, c.follow, c.text.size()) + vis(c.text.size() > 300 ? c.text.substr(0, 300) + "..." : c.text);
}
static std::string replayOf(const EC &c) {
    return fmt("code=%d\nhastext=%d\ninfolen=%zu\nwrapat=%d\nfollow=%d\ntext=%s\n", c.code, (int) c.hasText, c.infoLen, c.wrapAt, c.follow, hexEnc(c.text).c_str());
}

static std::string escapeTo255(const std::string &D, size_t *usedChars) {
    std::string E;
    size_t i = 0;
    for (; i < D.size(); i++) {
        size_t add = D[i] == '"' ? 2 : 1;
        if (E.size() + add > 255) break;
        E += D[i];
        if (D[i] == '"') E += '"';
    }
    if (usedChars) *usedChars = i;
    return E;
}

static std::string checkOne(const EC &c, bool *nt = nullptr) {
    InstCfg k; k.bufLen = 32; k.queueLen = 4;
    Cmd q; q.pattern = "SYSTem:ERRor[:NEXT]?"; q.lib = libIndex("ERRNEXTQ"); k.cmds.push_back(q);
    std::string stored = c.text;
    if (c.infoLen) stored = stored.substr(0, std::min(stored.size(), c.infoLen));
    else stored = stored.substr(0, std::min(stored.size(), (size_t) 255));
    std::string fillerA, fillerC;
#if VF_HEAPCFG
    size_t need = stored.size() + 1;
    if (c.wrapAt >= 0 && (size_t) c.wrapAt < need && need >= 2) {
        // A | C | first wrapAt bytes of the text ... wraps into A's released area
        size_t rest = need - (size_t) c.wrapAt;
        fillerA = std::string(std::max(rest, (size_t) 1), 'A');
        if (fillerA.size() > 254) fillerA.resize(254);
        fillerC = "C";
        k.heapLen = fillerA.size() + 1 + fillerC.size() + 1 + (size_t) c.wrapAt;
        if (fillerA.size() + 1 < rest) { fillerA.clear(); fillerC.clear(); k.heapLen = need + 8; }   // cannot build the layout: plain placement
    } else k.heapLen = need + 8;
#endif
    Inst I(k);
    std::vector<std::string> expectFirst;
    if (!fillerA.empty()) {
        SCPI_ErrorPushEx(&I.ctx, -100, (char *) fillerA.c_str(), 0);
        SCPI_ErrorPushEx(&I.ctx, -102, (char *) fillerC.c_str(), 0);
        I.input("SYST:ERR?\n");                  // pops A: its area is free, the write cursor stays behind C
        if (I.out.compare(0, 21, "-100,\"Command error;A") != 0) return "set-up query printed '" + vis(I.out) + "': " + describe(c);
        I.out.clear();
    }
    XBuf tb(c.text.size() + 1);
    memcpy(tb.p, c.text.c_str(), c.text.size() + 1);
    SCPI_ErrorPushEx(&I.ctx, (int16_t) c.code, c.hasText ? tb.p : nullptr, c.infoLen);
    if (!fillerA.empty()) {
        I.input("SYST:ERR?\n");
        if (I.out != "-102,\"Syntax error;C\"\r\n") return "second set-up query printed '" + vis(I.out) + "': " + describe(c);
        I.out.clear();
    }
    // a later error behind the one under test: its text lies right behind it in whatever store the build uses
    if (c.follow) SCPI_ErrorPushEx(&I.ctx, -104, (char *) "Zz", 0);
    int before = SCPI_ErrorCount(&I.ctx) - c.follow;
    I.errors.clear();
    bool r = I.input("SYST:ERR?\n");
    if (!I.invariant.empty()) return I.invariant + ": " + describe(c);
    int after = SCPI_ErrorCount(&I.ctx) - c.follow;
    std::string out = I.out;
    if (c.follow) {
        I.out.clear();
        I.input("SYST:ERR?\n");
        std::string d104 = describeCode(-104), fo = I.out;
        I.out = out;
        bool okF = fo == "-104,\"" + d104 + ";Zz\"\r\n";
#if VF_HEAPCFG || !USE_DEVICE_DEPENDENT_ERROR_INFORMATION
        okF = okF || fo == "-104,\"" + d104 + "\"\r\n";       // no room left in the static heap (or no texts at all): the error without its text
#endif
        if (!okF) return "the error queued behind the one under test came back as '" + vis(fo) + "': " + describe(c);
        if (SCPI_ErrorCount(&I.ctx) != 0) return "queue not empty after both queries: " + describe(c);
    }
    std::string desc = describeCode(c.code);
    // acceptable full contents D
    std::vector<std::string> Ds;
#if USE_DEVICE_DEPENDENT_ERROR_INFORMATION
    if (c.hasText && !stored.empty()) Ds.push_back(desc + ";" + stored);
    else if (c.hasText) { Ds.push_back(desc); Ds.push_back(desc + ";"); }   // empty text: both forms accepted
    else Ds.push_back(desc);
#else
    Ds.push_back(desc);
#endif
    if (nt) *nt = Ds[0].size() > 200 || stored.find('"') != std::string::npos;
    if (!r) return "SCPI_Input returned FALSE for SYST:ERR?: " + describe(c);
    if (before != 1 || after != 0) return fmt("queue count %d -> %d, expected 1 -> 0: ", before, after) + describe(c);
    if (I.flushes != (fillerA.empty() ? 1 : 3) + c.follow) return "flush count wrong: " + describe(c);
    // independent reader: <int>,"...."\r\n with every inner quote doubled
    std::string pre = fmt("%d,\"", c.code);
    if (out.compare(0, pre.size(), pre) != 0) return "response does not start with '" + pre + "': '" + vis(out) + "' " + describe(c);
    if (out.size() < pre.size() + 3 || out.substr(out.size() - 3) != "\"\r\n") return "response does not end with a closing quote and CR LF: '" + vis(out.substr(out.size() > 40 ? out.size() - 40 : 0)) + "' " + describe(c);
    std::string inner = out.substr(pre.size(), out.size() - pre.size() - 3), content;
    for (size_t i = 0; i < inner.size(); i++) {
        if (inner[i] == '"') {
            if (i + 1 >= inner.size() || inner[i + 1] != '"') return fmt("lone double quote inside the string at offset %zu: the response is not one 488.2 string: '", i) + vis(out) + "' " + describe(c);
            i++;
        }
        content += inner[i];
    }
    if (inner.size() > 255) return fmt("quoted content is %zu characters (> 255): ", inner.size()) + describe(c);
    std::string why;
    for (auto &D : Ds) {
        size_t used;
        std::string E = escapeTo255(D, &used);
        if (inner == E) return "";
        if (D.compare(0, content.size(), content) != 0) why = "unescaped content '" + vis(content.substr(0, 80)) + "...' is not a prefix of description;text";
        else why = fmt("content cut after %zu characters, the limit allows %zu", content.size(), used);
    }
    return why + " [response '" + vis(out.size() > 120 ? out.substr(0, 60) + " ... " + out.substr(out.size() - 50) : out) + "'] " + describe(c);
}

static std::string mkText(size_t L, const std::vector<size_t> &quotes, char fill) {
    std::string t(L, fill);
    for (size_t i = 0; i < L; i++) if (fill == 0) t[i] = (char) ('a' + i % 26);
    for (size_t q : quotes) if (q < L) t[q] = '"';
    return t;
}

static EC g_cur;
static std::string lazyCur(const void *) { return "sub=one\n" + replayOf(g_cur); }

static void runGrid(const Opt &o, Ev &ev) {
    armLazy(lazyCur, nullptr);
    std::vector<int> codes = {-113, -440, 0, 12345, -350, -32768, 32767};
#if USE_USER_ERROR_LIST
    codes = {102, 103, 104, -113, 12345};       // the application's own descriptions (one with quotes, one long with a quote near the limit)
#endif
    uint64_t idx = 0;
    bool full = !o.quick();
    auto run = [&](const EC &c) -> bool {
        if ((idx++ % o.workers) != (uint64_t) o.worker) return true;
        g_cur = c;
        bool nt = false;
        std::string m = checkOne(c, &nt);
        ev.eval();
        if (nt) ev.ntCount();
        if (nt && ev.wantSample()) ev.sample(describe(c));
        if (!m.empty()) { failEnum(o, ev, "one", replayOf(c), m); return ev.failures.size() < 5; }
        return true;
    };
    // every code that has a description, without and with a short text
    {
        static const int all[] = {
#define X(def, val, str) val,
#define XE X
            LIST_OF_ERRORS
#undef X
#undef XE
        };
        for (int code : all) { EC c; c.code = code; c.hasText = false; if (!run(c)) return; c.hasText = true; c.text = "x\"y"; if (!run(c)) return; }
        for (int code = -32768; code <= 32767; code += full ? 1 : 97) { EC c; c.code = code; c.hasText = (code & 1); c.text = "i"; if (!run(c)) return; }
    }
    for (int code : codes) {
        size_t dl = strlen(describeCode(code));
        for (size_t L = 0; L <= 400; L++) {
            long rel = (long) (dl + 1 + L) - 255;
            bool nearB = rel >= -6 && rel <= 8;
            if (!full && !nearB && L % 13 != 0 && L > 4) continue;
            std::vector<std::vector<size_t>> qs;
            qs.push_back({});
            if (L) { qs.push_back({0}); qs.push_back({L - 1}); }
            size_t b = 255 - dl - 1;   // index in the text of the first character that does not fit when nothing is escaped
            for (long d = -4; d <= 2; d++) { long p = (long) b + d; if (p >= 0 && (size_t) p < L) { qs.push_back({(size_t) p}); if (p >= 1) qs.push_back({(size_t) p - 1, (size_t) p}); if (p >= 2) qs.push_back({(size_t) p - 2, (size_t) p - 1, (size_t) p}); qs.push_back({0, (size_t) p}); } }
            if (full || nearB) for (size_t p = 0; p < L; p += (full ? 1 : 5)) qs.push_back({p});
            for (auto &q : qs) {
                EC c; c.code = code; c.text = mkText(L, q, 0);
                if (!run(c)) return;
                if (L && (nearB || L % 39 == 0)) { c.infoLen = L; if (!run(c)) return; c.infoLen = L / 2 ? L / 2 : 1; if (!run(c)) return; c.infoLen = 0; }
#if VF_HEAPCFG
                if (L >= 2) for (int w : {1, (int) L / 2, (int) L - 1, (int) L}) { c.wrapAt = w; if (!run(c)) return; if (nearB || L % 3 == 0) { c.follow = 1; if (!run(c)) return; c.follow = 0; } }
                c.wrapAt = -1;
#endif
                if (nearB || L % 7 == 0) { c.follow = 1; if (!run(c)) return; c.follow = 0; }
            }
        }
    }
    disarmLazy();
    ev.info["c18-grid"] = full ? "all text lengths 0..400 x quote placements (every single position, pairs and triples around the 255 boundary) x 7 codes; all 65536 codes"
                               : "text lengths near the 255 boundary completely, others strided; quote placements around the boundary; every 97th code";
    if (full) ev.exhaustive["every error code -32768..32767 with and without text"] = true;
    ev.exhaustive["every code of the full error list, with and without a text containing a quote"] = true;
}

static EC decode(Src &s) {
    EC c;
#if USE_USER_ERROR_LIST
    static const int codes[] = {102, 103, 104, 102, 103, 104, 102, 103, -32768, 32767, -222, -363};
#else
    static const int codes[] = {-113, -440, 0, 12345, -350, -101, -310, 1, -32768, 32767, -222, -363};
#endif
    c.code = s.prob(1, 3) ? s.irange(-32768, 32767) : codes[s.range(0, 11)];
    c.hasText = !s.prob(1, 8);
    size_t L = s.prob(1, 2) ? s.range(180, 300) : s.range(0, 400);
    for (size_t i = 0; i < L; i++) { switch (s.weighted({12, 2, 1})) { case 0: c.text += (char) s.range(32, 126); break; case 1: c.text += '"'; break; default: c.text += (char) s.range(1, 127); } }
    if (!c.text.empty() && s.prob(1, 4)) c.infoLen = s.range(1, c.text.size());
    if (s.prob(1, 2)) c.wrapAt = (int) s.range(0, c.text.size());
    if (s.prob(1, 3)) c.follow = 1;
    return c;
}
static std::string body(Src &s, Ev &ev) {
    EC c = decode(s);
    bool nt = false;
    std::string m = checkOne(c, &nt);
    ev.eval();
    if (nt) ev.nt(hashStr(replayOf(c)));
    ev.label(c.hasText ? (c.text.find('"') != std::string::npos ? "rand-text-with-quote" : "rand-text") : "rand-no-text");
    if (nt && ev.wantSample()) ev.sample("random: " + describe(c));
    return m;
}

int main(int argc, char **argv) {
    std::vector<Sub> subs;
    auto replayOne = [](const Replay &r) {
        EC c; c.code = (int) r.num("code"); c.hasText = r.num("hastext", 1) != 0; c.infoLen = (size_t) r.num("infolen"); c.wrapAt = (int) r.num("wrapat", -1); c.follow = (int) r.num("follow", 0); c.text = hexDec(r.get("text"));
        return checkOne(c);
    };
    subs.push_back({"one", [](const Opt &, Ev &) {}, replayOne});
    subs.push_back({"grid", runGrid, replayOne});
    subs.push_back({"rand", [](const Opt &o, Ev &ev) { runRandom(o, ev, "rand", 460, o.quick() ? 20000 : 200000, body); },
                    [](const Replay &r) { auto v = r.choices(); Src s(v); Ev e; return body(s, e); }});
    return mainWith(argc, argv, "C18", subs);
}
