// C03 - a pattern accepts exactly the headers of its short/long-form language.
// Oracle: reference matcher (ref_match.hpp), compared with matchCommand / SCPI_Match
// directly and with SCPI_IsCmd / SCPI_CommandNumbers on a live context.
#include "fixture.hpp"
#include "ref_match.hpp"
using namespace vf;

static const int32_t kDefault = -7;
static uint64_t g_ambiguous = 0;
static bool g_compoundSeen = false;

static std::string checkPair(const std::string &pattern, const std::string &header, bool live, bool *accepted = nullptr, const RefPattern *pre = nullptr) {
    RefPattern rp0;
    if (!pre) rp0 = refParsePattern(pattern);
    const RefPattern &rp = pre ? *pre : rp0;
    if (!rp.ok) return "harness: cannot parse pattern '" + pattern + "'";
    RefMatch rm = refMatch(rp, header);
    if (rm.solutions > 1) { g_ambiguous++; return ""; }     // precondition: unambiguous patterns only
    if (accepted) *accepted = rm.accept;
    int nn = refNumericCount(rp);
    // every caller hands the header over inside a NUL-terminated buffer (the input buffer or a C string): keep that contract
    XBuf hb(header.size() + 1); memcpy(hb.p, header.c_str(), header.size() + 1);
    std::string ctxs = " [pattern '" + pattern + "' header '" + header + "']";
    XBuf nb(4 * (size_t) nn + 4, 0x5a);
    int32_t *nums = (int32_t *) nb.p;
    scpi_bool_t r = matchCommand(pattern.c_str(), hb.p, header.size(), nums, (size_t) nn, kDefault);
    if ((r != 0) != rm.accept) return std::string(r ? "accepted" : "rejected") + " by matchCommand, reference says " + (rm.accept ? "accept" : "reject") + ctxs;
    if ((uint32_t) nums[nn] != 0x5a5a5a5au) return "numbers[] written beyond the announced length" + ctxs;
    if (rm.accept) for (int i = 0; i < nn; i++) {
        long long exp = rm.numbers[(size_t) i] < 0 ? kDefault : rm.numbers[(size_t) i];
        if (nums[i] != exp) return fmt("numeric suffix %d reported as %d, expected %lld%s", i, nums[i], exp, rm.numbers[(size_t) i] < 0 ? " (the caller's default: suffix left out or keyword skipped)" : "") + ctxs;
    }
    if ((SCPI_Match(pattern.c_str(), hb.p, header.size()) != 0) != rm.accept) return "SCPI_Match disagrees" + ctxs;
    if ((matchCommand(pattern.c_str(), hb.p, header.size(), nullptr, 0, 0) != 0) != rm.accept) return "matchCommand without numbers disagrees" + ctxs;
    // shorter numbers array: nothing beyond it may be written
    if (nn >= 2) {
        XBuf sb(4, 0x5a);
        matchCommand(pattern.c_str(), hb.p, header.size(), (int32_t *) sb.p, 1, kDefault);
        if (!sb.ok()) return "numbers[] of length 1 overrun" + ctxs;
    }
    if (!live || header.compare(0, 2, ":*") == 0) return "";   // ':*XXX' is not a lexically valid header: only the direct calls apply
    // through the public API on a live context
    InstCfg k; k.bufLen = header.size() + 8; k.queueLen = 4;
    k.decoy = (hashStr(pattern + header) & 3) == 0;      // a quarter of the live cases run next to a second instrument (fixture.hpp)
    Cmd c; c.pattern = pattern; c.script.numbers = nn; c.script.numDefault = kDefault; c.script.isCmdProbes.push_back(header); k.cmds.push_back(c);
    Inst I(k);
    I.input(header + "\n");
    if (!I.invariant.empty()) return I.invariant + ctxs;
    if ((I.handlerCalls == 1) != rm.accept) return fmt("live context ran the handler %d times, reference says ", I.handlerCalls) + (rm.accept ? "accept" : "reject") + ctxs;
    if (!rm.accept) { if (!(I.errors.size() == 1 && I.errors[0] == -113)) return "rejected header did not raise exactly one -113" + ctxs; return ""; }
    std::string expN = "N:1:";
    for (int i = 0; i < nn; i++) expN += fmt("%lld,", rm.numbers[(size_t) i] < 0 ? (long long) kDefault : rm.numbers[(size_t) i]);
    bool sawI = false, sawN = nn == 0;
    for (auto &l : I.trace) {
        if (l.compare(0, 2, "N:") == 0) { sawN = true; if (l != expN) return "SCPI_CommandNumbers gave " + l + ", expected " + expN + ctxs; }
        if (l.compare(0, 2, "I:") == 0) { sawI = true; if (l.compare(0, 4, "I:1:") != 0) return "SCPI_IsCmd(effective header) is FALSE inside the handler" + ctxs; }
    }
    if (!sawI || !sawN) return "handler trace incomplete" + ctxs;
    // the same header reached as a later unit of a compound message, written in relative form (last keyword only): the
    // effective header is composed from the path of the preceding unit and must be matched - and its suffixes reported -
    // exactly like the header written out in full
    size_t lastColon = header.rfind(':');
    if (lastColon != std::string::npos && lastColon > 0 && header[0] != '*') {
        InstCfg k2 = k; k2.bufLen = 2 * header.size() + 8;
        Inst J(k2);
        J.input(header + ";" + header.substr(lastColon + 1) + "\n");
        if (!J.invariant.empty()) return J.invariant + ctxs;
        if (J.handlerCalls != 2) return fmt("'<header>;<last keyword>' ran the handler %d times, expected 2 (the relative form composes to the same header)", J.handlerCalls) + ctxs;
        int seenN = 0;
        for (auto &l : J.trace) if (l.compare(0, 2, "N:") == 0) { seenN++; if (l != expN) return fmt("SCPI_CommandNumbers in unit %d of '<header>;<last keyword>' gave ", seenN) + l + ", expected " + expN + ctxs; }
        if (nn > 0 && seenN != 2) return "handler trace of the compound message incomplete" + ctxs;
        g_compoundSeen = true;
    }
    return "";
}

// ------------------------------------------------------------- (a) complete small space
static const char *const kNames[3] = {"ALPha", "BRAvo", "CHarlie"};
static std::vector<std::string> formsOf(int name) {
    std::string n = kNames[name], lng = upper(n), sh;
    for (char c : n) { if (islower((unsigned char) c)) break; sh += c; }
    return {sh, lng, sh + "X", lng.substr(0, lng.size() - 1), sh + "7", lng + "12"};
}
static std::string g_curP, g_curH;
static std::string lazyCur(const void *) { return "sub=pair\npattern=" + hexEnc(g_curP) + "\nheader=" + hexEnc(g_curH) + "\n"; }

static void runEnum(const Opt &o, Ev &ev) {
    armLazy(lazyCur, nullptr);
    // patterns: 1..3 keywords with distinct names x {mandatory, optional} x {plain, #} x {?, none}
    std::vector<std::string> patterns;
    for (int len = 1; len <= 3; len++) {
        int perms[6][3] = {{0, 1, 2}, {0, 2, 1}, {1, 0, 2}, {1, 2, 0}, {2, 0, 1}, {2, 1, 0}};
        std::vector<std::vector<int>> orders;
        for (auto &pm : perms) { std::vector<int> v(pm, pm + len); bool dup = false; for (auto &x : orders) dup |= x == v; if (!dup) orders.push_back(v); }
        for (auto &ord : orders) for (int mask = 0; mask < (1 << (2 * len)); mask++) for (int q = 0; q < 2; q++) {
            std::string p;
            for (int i = 0; i < len; i++) {
                bool opt = mask & (1 << (2 * i)), num = mask & (1 << (2 * i + 1));
                std::string kw = std::string(i ? ":" : "") + kNames[ord[(size_t) i]] + (num ? "#" : "");
                if (opt) p += "[" + std::string(i ? "" : ":") + kw + "]"; else p += kw;
            }
            if (q) p += "?";
            patterns.push_back(p);
        }
    }
    // headers: 0..maxMn mnemonics, each one of 18 forms, x leading colon x '?'
    std::vector<RefPattern> parsed;
    for (auto &p : patterns) parsed.push_back(refParsePattern(p));
    int maxMn = o.quick() ? 3 : 4;
    std::vector<std::string> forms;
    for (int n = 0; n < 3; n++) for (auto &f : formsOf(n)) forms.push_back(f);
    uint64_t idx = 0, pairs = 0, nt = 0;
    std::vector<size_t> sel;
    for (int mn = 1; mn <= maxMn; mn++) {
        uint64_t total = 1; for (int i = 0; i < mn; i++) total *= forms.size();
        for (uint64_t kx = 0; kx < total; kx++) {
            if ((idx++ % (uint64_t) o.workers) != (uint64_t) o.worker) continue;
            std::string base; uint64_t x = kx;
            for (int i = 0; i < mn; i++) { base += (i ? ":" : "") + forms[x % forms.size()]; x /= forms.size(); }
            for (int colon = 0; colon < 2; colon++) for (int q = 0; q < 2; q++) {
                std::string h = std::string(colon ? ":" : "") + base + (q ? "?" : "");
                g_curH = h;
                for (size_t pi = 0; pi < patterns.size(); pi++) {
                    const std::string &p = patterns[pi];
                    g_curP = p;
                    bool acc = false;
                    std::string m = checkPair(p, h, false, &acc, &parsed[pi]);
                    pairs++;
                    bool special = p.find('[') != std::string::npos || p.find('#') != std::string::npos;
                    if (special && acc) { nt++; if (ev.wantSample()) ev.sample("accept: pattern '" + p + "' header '" + h + "'"); }
                    if (!m.empty()) { failEnum(o, ev, "pair", "pattern=" + hexEnc(p) + "\nheader=" + hexEnc(h) + "\n", m); if (ev.failures.size() >= 4) return; }
                }
            }
        }
    }
    disarmLazy();
    ev.eval(pairs); ev.ntCount(nt); ev.label("enumerated-pairs", pairs); ev.label("patterns", patterns.size());
    ev.excluded["ambiguous (pattern, header) pairs skipped (precondition)"] = g_ambiguous;
    ev.exhaustive[fmt("all %zu patterns of 1..3 distinct keywords x {mandatory,optional} x {plain,#} x {?,none} against all headers of 1..%d mnemonics from 18 forms (short, long, short+letter, long-letter, short+7, long+12) x leading colon x '?'", patterns.size(), maxMn)] = true;
}

// ------------------------------------------------------------- (b)/(c) random patterns, shipped patterns
static const char *const kPool[] = {"ALPha", "BRAvo", "CHarlie", "DELTa", "ECHO", "FOXtrot", "GOLF", "HOTel", "INDia", "JULiett", "KILO", "LIMa", "ALPMode", "CHIrp", "INDEx"};   // the last three: prefix relation with ALPha / CHarlie / INDia (gen.hpp)
static const int kNPoolC03 = 15;
static const char *const kShipped[] = {
    "*CLS", "*ESE", "*ESE?", "*ESR?", "*IDN?", "*OPC", "*OPC?", "*RST", "*SRE", "*SRE?", "*STB?", "*TST?", "*WAI",
    "SYSTem:ERRor[:NEXT]?", "SYSTem:ERRor:COUNt?", "SYSTem:VERSion?", "STATus:OPERation?", "STATus:OPERation:EVENt?", "STATus:OPERation:CONDition?", "STATus:OPERation:ENABle",
    "STATus:OPERation:ENABle?", "STATus:QUEStionable[:EVENt]?", "STATus:QUEStionable:CONDition?", "STATus:QUEStionable:ENABle", "STATus:QUEStionable:ENABle?", "STATus:PRESet",
    "MEASure:VOLTage:DC?", "CONFigure:VOLTage:DC", "MEASure:VOLTage:DC:RATio?", "MEASure:VOLTage:AC?", "MEASure:CURRent:DC?", "MEASure:CURRent:AC?", "MEASure:RESistance?",
    "MEASure:FRESistance?", "MEASure:FREQuency?", "MEASure:PERiod?", "SYSTem:COMMunication:TCPIP:CONTROL?", "TEST:BOOL", "TEST:CHOice?", "TEST#:NUMbers#", "TEST:TEXT",
    "TEST:ARBitrary?", "TEST:CHANnellist", "TEST:TREEA?", "TEST:TREEB?", "STUB", "STUB?", "TEXTfunction?", "MEASure[:SCALar]:CURRent[:DC]?", "ABcc[:BCCdddd]:CDEFGeeeee",
    "ABcc:BCCdddd[:CDEFGeeeee]", "ABcc[:BCCdddd][:CDEFGeeeee]", "ABcc[:BCCdddd][:CDEFGeeeee][:DEFFFFFFFFFfffffffffff]", "[:ABcc]:AACddd", "[:ABcc]:BCCdddd[:CDEFGeeeee]",
    "OUTPut#:MODulation#:FM#", "OUTPut#[:MODulation#]:FM#", "OUTPut#[:MODulation]:FM#", "OUTPut#:MODulation:FM#", "OUTPut#[:MODulation#]:FM", "ABCdef#"};
static const int kNShipped = sizeof kShipped / sizeof kShipped[0];

static std::string randCase(Src &s, const std::string &t) {
    std::string o = t;
    switch (s.range(0, 3)) {
        case 0: break;
        case 1: for (auto &c : o) c = (char) tolower((unsigned char) c); break;
        default: for (auto &c : o) if (s.coin()) c = (char) tolower((unsigned char) c); break;
    }
    return o;
}
// a spelling or near miss of a pattern
static std::string spell(Src &s, const RefPattern &p, bool &mutated) {
    mutated = false;
    if (p.common) {
        std::string name = p.commonName; bool q = p.query, colon = false;
        if (s.prob(1, 5)) { mutated = true; switch (s.range(0, 3)) { case 0: colon = true; break; case 1: name += "X"; break; case 2: if (name.size() > 1) name.pop_back(); break; default: q = !q; } }
        return randCase(s, std::string(colon ? ":" : "") + "*" + name + (q ? "?" : ""));
    }
    std::vector<std::string> mn;
    for (size_t j = 0; j < p.kw.size(); j++) {
        const RefKeyword &k = p.kw[j];
        if (k.optional && s.coin()) continue;
        std::string m = s.coin() ? k.shortForm : k.longForm;
        if (k.numeric && s.prob(2, 3)) { int nd = (int) s.range(1, 9); for (int d = 0; d < nd; d++) m += (char) ('0' + s.range(d ? 0 : (nd > 1 ? 1 : 0), 9)); }
        mn.push_back(m);
    }
    if (mn.empty()) mn.push_back(p.kw[0].shortForm);
    if (s.prob(2, 5)) {
        mutated = true;
        size_t at = s.range(0, mn.size() - 1);
        switch (s.range(0, 8)) {
            case 0: mn[at] += (char) ('A' + s.range(0, 25)); break;                                   // one letter more
            case 1: if (mn[at].size() > 1) mn[at].pop_back(); break;                                  // one letter fewer
            case 2: { size_t nd = 0; for (char ch : mn[at]) nd += isdigit((unsigned char) ch) != 0; if (nd < 9) mn[at] += (char) ('0' + s.range(0, 9)); break; }   // digit after any keyword (suffix values stay <= 9 digits)
            case 3: mn[at] = upper(kPool[s.range(0, kNPoolC03 - 1)]); break;                                      // foreign keyword
            case 4: if (mn.size() > 1) std::swap(mn[at], mn[(at + 1) % mn.size()]); break;             // swapped order
            case 5: mn.erase(mn.begin() + (long) at); if (mn.empty()) mn.push_back("X"); break;        // missing keyword
            case 6: mn.push_back(s.coin() ? upper(kPool[s.range(0, kNPoolC03 - 1)]) : mn[at]); break;             // extra trailing keyword
            case 7: { const RefKeyword &k = p.kw[s.range(0, p.kw.size() - 1)]; mn[at] = k.longForm.substr(0, std::max((size_t) 1, (size_t) s.range(1, k.longForm.size()))); break; }   // truncated long form
            default: break;
        }
    }
    std::string h;
    for (size_t i = 0; i < mn.size(); i++) h += (i ? ":" : "") + mn[i];
    bool q = p.query;
    if (s.prob(1, 8)) { q = !q; mutated = true; }
    if (s.prob(1, 3)) h = ":" + h;
    if (q) h += "?";
    return randCase(s, h);
}
static std::string randPattern(Src &s) {
    int n = (int) s.range(1, 4);
    std::vector<int> used;
    std::string p;
    for (int i = 0; i < n; i++) {
        std::vector<int> freeNames;     // construction, not rejection: an exhausted choice source must still terminate
        for (int x = 0; x < kNPoolC03; x++) if (std::find(used.begin(), used.end(), x) == used.end()) freeNames.push_back(x);
        int name = freeNames[s.range(0, freeNames.size() - 1)];
        used.push_back(name);
        bool opt = s.prob(2, 5), num = s.prob(1, 3);
        std::string kw = std::string(i ? ":" : "") + kPool[name] + (num ? "#" : "");
        if (opt) p += "[" + std::string(i ? "" : ":") + kw + "]"; else p += (i == 0 && s.prob(1, 6) ? ":" : "") + kw;
    }
    if (s.coin()) p += "?";
    return p;
}
static std::string body(Src &s, Ev &ev) {
    std::string pattern, header;
    bool mutated = false;
    int mode = (int) s.weighted({5, 3, 2});
    if (mode == 0) { pattern = randPattern(s); header = spell(s, refParsePattern(pattern), mutated); }
    else if (mode == 1) { pattern = kShipped[s.range(0, (uint64_t) kNShipped - 1)]; header = spell(s, refParsePattern(pattern), mutated); }
    else { pattern = kShipped[s.range(0, (uint64_t) kNShipped - 1)]; header = spell(s, refParsePattern(kShipped[s.range(0, (uint64_t) kNShipped - 1)]), mutated); mutated = true; }
    bool acc = false;
    g_compoundSeen = false;
    std::string m = checkPair(pattern, header, true, &acc);
    if (g_compoundSeen) ev.label("live-compound-relative-form");
    ev.eval();
    bool special = pattern.find('[') != std::string::npos || pattern.find('#') != std::string::npos;
    ev.label(std::string(mode == 0 ? "random-pattern" : mode == 1 ? "shipped-pattern" : "shipped-cross") + (acc ? "-accepted" : "-rejected"));
    if (special && (acc || (mutated && mode != 2))) { ev.nt(hashStr(pattern + "|" + header)); if (ev.wantSample()) ev.sample(std::string(acc ? "accept" : "reject") + ": pattern '" + pattern + "' header '" + header + "'"); }
    if (!ev.frozen) ev.excluded["ambiguous (pattern, header) pairs skipped (precondition)"] = g_ambiguous;
    return m;
}

int main(int argc, char **argv) {
    std::vector<Sub> subs;
    auto replayPair = [](const Replay &r) { return checkPair(hexDec(r.get("pattern")), hexDec(r.get("header")), r.num("live", 1) != 0); };
    subs.push_back({"pair", [](const Opt &, Ev &) {}, replayPair});
    subs.push_back({"enum", runEnum, replayPair});
    subs.push_back({"rand", [](const Opt &o, Ev &ev) { runRandom(o, ev, "rand", 90, o.quick() ? 60000 : 600000, body); },
                    [](const Replay &r) { auto v = r.choices(); Src s(v); Ev e; return body(s, e); }});
    return mainWith(argc, argv, "C03", subs);
}
