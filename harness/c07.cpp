// C07 - every value the library formats as a result decodes back to the same value.
// Oracle: round trip through the real path: a query handler emits the value, the
// captured response data is sent back as "ECHO <data>\n" through SCPI_Input and
// read with the matching SCPI_Param* reader.
#include "fixture.hpp"
using namespace vf;

struct RT {                 // one round-trip case
    OItem item;
    Reader reader;
    bool viaChars = false;  // text: read with SCPI_ParamCharacters and un-double by hand
};

static std::string describe(const RT &c) {
    const OItem &it = c.item;
    std::string s = fmt("okind=%d base=%d u=0x%llx d=%s reader=%s n=%d", (int) it.kind, it.base, (unsigned long long) it.u, bitsD(it.d).c_str(), kRName[c.reader.kind], c.reader.n);
    if (it.kind == O_TEXT || it.kind == O_BLOCK) s += " bytes=" + (it.s.size() > 60 ? fmt("<%zu bytes> ", it.s.size()) + vis(it.s.substr(0, 60)) : vis(it.s));
    if (it.kind == O_ARR) { s += fmt(" elem=%d arr=", it.elem); for (auto x : it.arr) s += fmt("%llx,", (unsigned long long) x); }
    return s;
}

static int leadExp10(const std::string &t, bool &zero) {
    // decimal exponent of the first non-zero digit of a %g style text
    size_t i = 0;
    if (i < t.size() && (t[i] == '-' || t[i] == '+')) i++;
    int pointPos = -1, firstNz = -1, nd = 0;
    size_t j = i;
    for (; j < t.size() && (isdigit((unsigned char) t[j]) || t[j] == '.'); j++) {
        if (t[j] == '.') { pointPos = nd; continue; }
        if (firstNz < 0 && t[j] != '0') firstNz = nd;
        nd++;
    }
    if (pointPos < 0) pointPos = nd;
    int ex = 0;
    if (j < t.size() && (t[j] == 'e' || t[j] == 'E')) ex = atoi(t.c_str() + j + 1);
    zero = firstNz < 0;
    return zero ? 0 : pointPos - 1 - firstNz + ex;
}

static std::string undouble(const std::string &raw, char q) {
    std::string o;
    for (size_t i = 0; i < raw.size(); i++) { o += raw[i]; if (raw[i] == q && i + 1 < raw.size() && raw[i + 1] == q) i++; }
    return o;
}

// expected "V:" payload for exact kinds
static std::string expectValue(const RT &c) {
    const OItem &it = c.item;
    switch (it.kind) {
        case O_I8: return fmt("%d", (int) (int8_t) it.u);
        case O_I16: return fmt("%d", (int) (int16_t) it.u);
        case O_I32: return fmt("%d", (int32_t) it.u);
        case O_U8: return fmt("%u", (unsigned) (uint8_t) it.u);
        case O_U16: return fmt("%u", (unsigned) (uint16_t) it.u);
        case O_U32: return fmt("%u", (uint32_t) it.u);
        case O_I64: return fmt("%lld", (long long) it.u);
        case O_U64: return fmt("%llu", (unsigned long long) it.u);
        case O_BOOL: return it.u ? "1" : "0";
        case O_BLOCK: return hexEnc(it.s);
        default: return "";
    }
}

static std::string replayOf(const RT &c);
static std::string roundTrip(const RT &c, Inst *F = nullptr, Inst *P = nullptr) {
    std::unique_ptr<Inst> f0, p0;
    armCase("sub=one\n" + replayOf(c));   // a sanitizer abort inside the library dumps this case
    if (!F) {
        InstCfg fc; fc.bufLen = 32; fc.queueLen = 4;
        Cmd q; q.pattern = "Q?"; q.script.items.push_back(c.item); fc.cmds.push_back(q);
        f0.reset(new Inst(fc)); F = f0.get();
    } else {
        F->cfg.cmds[0].script.items[0] = c.item; F->trace.clear(); F->out.clear(); F->errors.clear();
    }
    F->input("Q?\n");
    if (!F->errors.empty()) return fmt("formatting raised error %d: ", F->errors[0]) + describe(c);
    if (!F->invariant.empty()) return F->invariant;
    std::string resp = F->out;
    if (c.item.kind == O_ARR && c.item.arr.empty()) return resp.empty() ? "" : "empty array produced output '" + vis(resp) + "'";
    if (resp.size() < 2 || resp.substr(resp.size() - 2) != "\r\n") return "response not terminated by CR LF: '" + vis(resp) + "' " + describe(c);
    std::string data = resp.substr(0, resp.size() - 2);
    if (!P) {
        InstCfg pc; pc.bufLen = data.size() + 16; pc.queueLen = 4;
        Cmd e; e.pattern = "ECHO"; e.script.readers.push_back(c.reader); pc.cmds.push_back(e);
        p0.reset(new Inst(pc)); P = p0.get();
    } else {
        P->cfg.cmds[0].script.readers[0] = c.reader; P->trace.clear(); P->out.clear(); P->errors.clear();
    }
    bool r = P->input("ECHO " + data + "\n");
    std::string ctxs = " [response data '" + vis(data.substr(0, 120)) + "'] " + describe(c);
    if (!P->invariant.empty()) return P->invariant + ctxs;
    if (!P->errors.empty()) return fmt("sending the response back raised error %d", P->errors[0]) + ctxs;
    if (!r) return "SCPI_Input returned FALSE for the echoed response" + ctxs;
    std::string vline;
    for (auto &l : P->trace) if (l.compare(0, 2, "V:") == 0) vline = l;
    std::string pre = fmt("V:%s:1:0:", kRName[c.reader.kind]);
    if (vline.compare(0, pre.size(), pre) != 0) return "reader did not accept the echoed response (" + vline + ")" + ctxs;
    std::string got = vline.substr(pre.size());
    const OItem &it = c.item;
    switch (it.kind) {
        case O_F32: case O_F64: {
            long double x = it.kind == O_F32 ? (long double) (float) it.d : (long double) it.d, y;
            if (it.kind == O_F32) { uint32_t b = (uint32_t) strtoul(got.c_str(), nullptr, 16); float f; memcpy(&f, &b, 4); y = f; }
            else { uint64_t b = strtoull(got.c_str(), nullptr, 16); double d; memcpy(&d, &b, 8); y = d; }
            bool zero; int e10 = leadExp10(data, zero);
            if (zero) { if (x != 0) return "non-zero value emitted as zero" + ctxs; if (y != 0) return "zero text decoded to non-zero" + ctxs; return ""; }
            int P10 = it.kind == O_F32 ? 6 : 15;
            long double unit = powl(10.0L, (long double) (e10 - (P10 - 1)));
            if (!(fabsl(y - x) <= unit)) return fmt("decoded value differs by more than one unit of digit %d: |%.21Lg - %.21Lg| > %.3Lg", P10, y, x, unit) + ctxs;
            return "";
        }
        case O_TEXT: {
            if (c.viaChars) {
                std::string raw = hexDec(got);
                if (undouble(raw, '"') != it.s) return "SCPI_ParamCharacters + un-doubling gives '" + vis(undouble(raw, '"')) + "'" + ctxs;
                return "";
            }
            std::string exp = fmt("%zu:", it.s.size()) + hexEnc(it.s);
            if (got != exp) return "SCPI_ParamCopyText (buffer = text length + 1) delivered " + got + ", expected " + exp + ctxs;
            return "";
        }
        case O_ARR: {
            std::string exp = fmt("%zu:", it.arr.size());
            for (size_t i = 0; i < it.arr.size(); i++) {
                uint64_t u = it.arr[i];
                switch (it.elem) {
                    case 0: exp += fmt("%d,", (int) (int8_t) u); break;
                    case 1: exp += fmt("%u,", (unsigned) (uint8_t) u); break;
                    case 2: exp += fmt("%d,", (int) (int16_t) u); break;
                    case 3: exp += fmt("%u,", (unsigned) (uint16_t) u); break;
                    case 4: exp += fmt("%d,", (int32_t) u); break;
                    case 5: exp += fmt("%u,", (uint32_t) u); break;
                    case 6: exp += fmt("%lld,", (long long) u); break;
                    case 7: exp += fmt("%llu,", (unsigned long long) u); break;
                    default: break;
                }
            }
            if (it.elem < 8) { if (got != exp) return "array decoded as " + got + ", expected " + exp + ctxs; return ""; }
            // float / double arrays: element-wise tolerance through scalar round trips of each element is
            // covered by the scalar cases; here the count and order are checked with a loose tolerance
            size_t colon = got.find(':');
            if ((size_t) atoll(got.c_str()) != it.arr.size()) return "array element count differs: " + got + ctxs;
            std::string rest = got.substr(colon + 1);
            for (size_t i = 0; i < it.arr.size(); i++) {
                size_t comma = rest.find(',');
                std::string h = rest.substr(0, comma);
                rest = rest.substr(comma + 1);
                long double x, y;
                if (it.elem == 8) { uint32_t b = (uint32_t) it.arr[i]; float f; memcpy(&f, &b, 4); x = f; b = (uint32_t) strtoul(h.c_str(), nullptr, 16); memcpy(&f, &b, 4); y = f; }
                else { uint64_t b = it.arr[i]; double d; memcpy(&d, &b, 8); x = d; b = strtoull(h.c_str(), nullptr, 16); memcpy(&d, &b, 8); y = d; }
                long double tol = fabsl(x) * (it.elem == 8 ? 1e-5L : 1e-14L);
                if (!(fabsl(x - y) <= tol)) return fmt("array element %zu decoded as %.17Lg, emitted from %.17Lg", i, y, x) + ctxs;
            }
            return "";
        }
        default: {
            std::string exp = expectValue(c);
            if (got != exp) return "decoded " + got + ", expected " + exp + ctxs;
            return "";
        }
    }
}

static bool nontrivial(const RT &c) {
    const OItem &it = c.item;
    switch (it.kind) {
        case O_I8: return (int8_t) it.u < 0 || (int8_t) it.u > 9;
        case O_I16: return (int16_t) it.u < 0 || (int16_t) it.u > 9;
        case O_I32: return (int32_t) it.u < 0 || (int32_t) it.u > 9;
        case O_I64: return (int64_t) it.u < 0 || (int64_t) it.u > 9;
        case O_U8: case O_U16: case O_U32: case O_U64: return it.u >= (uint64_t) (it.base == 10 ? 10 : it.base);
        case O_BOOL: return false;
        case O_TEXT: return it.s.find_first_of("\"',;\r\n") != std::string::npos || it.s.size() >= 10;
        case O_BLOCK: return it.s.size() >= 10;
        case O_ARR: return it.arr.size() >= 2;
        default: return true;
    }
}

static RT mkInt(OKind k, uint64_t v, int base) {
    RT c; c.item.kind = k; c.item.u = v; c.item.base = base;
    c.reader.kind = (k == O_I8 || k == O_I16 || k == O_I32) ? R_I32 : (k == O_U8 || k == O_U16 || k == O_U32) ? R_U32 : (k == O_I64) ? R_I64 : (k == O_U64) ? R_U64 : R_BOOL;
    return c;
}
static std::string replayOf(const RT &c) {
    std::string s = fmt("okind=%d\nbase=%d\nu=%llu\nd=%s\nrkind=%d\nrn=%d\nviachars=%d\nelem=%d\nbytes=%s\narr=", (int) c.item.kind, c.item.base,
                        (unsigned long long) c.item.u, bitsD(c.item.d).c_str(), (int) c.reader.kind, c.reader.n, (int) c.viaChars, c.item.elem, hexEnc(c.item.s).c_str());
    for (auto x : c.item.arr) s += fmt("%llu,", (unsigned long long) x);
    return s + "\n";
}
static RT fromReplay(const Replay &r) {
    RT c; c.item.kind = (OKind) r.num("okind"); c.item.base = (int) r.num("base", 10); c.item.u = strtoull(r.get("u", "0").c_str(), nullptr, 10);
    uint64_t b = strtoull(r.get("d", "0").c_str(), nullptr, 16); memcpy(&c.item.d, &b, 8);
    c.reader.kind = (RKind) r.num("rkind"); c.reader.n = (int) r.num("rn", 1); c.viaChars = r.num("viachars") != 0; c.item.elem = (int) r.num("elem");
    c.item.s = hexDec(r.get("bytes")); c.item.format = 0;
    std::string a = r.get("arr"); const char *p = a.c_str();
    while (*p) { char *e; uint64_t x = strtoull(p, &e, 10); if (e == p) break; c.item.arr.push_back(x); p = e; if (*p == ',') p++; }
    return c;
}

// ---- sub-check: all 8- and 16-bit values in all bases, through persistent contexts
static void runSmallInts(const Opt &o, Ev &ev) {
    InstCfg fc; fc.bufLen = 32; fc.queueLen = 4; Cmd q; q.pattern = "Q?"; q.script.items.push_back(OItem()); fc.cmds.push_back(q);
    InstCfg pc; pc.bufLen = 128; pc.queueLen = 4; Cmd e; e.pattern = "ECHO"; e.script.readers.push_back(Reader()); pc.cmds.push_back(e);
    Inst F(fc), P(pc);
    static const int bases[] = {10, 2, 8, 16};
    uint64_t idx = 0;
    for (int width = 8; width <= 16; width += 8) for (uint64_t v = 0; v < (1ULL << width); v++) {
        if ((idx++ % o.workers) != (uint64_t) o.worker) continue;
        std::vector<RT> cs;
        cs.push_back(mkInt(width == 8 ? O_I8 : O_I16, v, 10));
        for (int b : bases) cs.push_back(mkInt(width == 8 ? O_U8 : O_U16, v, b));
        if (width == 8 && v < 2) cs.push_back(mkInt(O_BOOL, v, 10));
        for (auto &c : cs) {
            std::string m = roundTrip(c, &F, &P);
            ev.eval();
            if (nontrivial(c)) ev.ntCount();
            if (v == 200 && ev.wantSample()) ev.sample("small int: " + describe(c) + " -> '" + vis(F.out) + "'");
            if (!m.empty()) { failEnum(o, ev, "one", replayOf(c), m); if (ev.failures.size() >= 5) return; }
        }
    }
    ev.exhaustive["all 2^8 and 2^16 values, signed and unsigned x bases {2,8,10,16}, booleans"] = true;
}

// ---- sub-check: 32-bit sweep through the maintainers' shortcut (no message machinery)
static char g_cap[256];
static size_t g_capLen;
static size_t capWrite(scpi_t *, const char *d, size_t n) { if (g_capLen + n < sizeof g_cap) { memcpy(g_cap + g_capLen, d, n); g_capLen += n; } return n; }
static int capErr(scpi_t *, int_fast16_t) { return 0; }
static uint32_t g_curV; static int g_curBase, g_curSigned;
static std::string lazy32(const void *) { return "sub=one\n" + replayOf(mkInt(g_curSigned ? O_I32 : O_U32, g_curV, g_curBase)); }
static void runSweep32(const Opt &o, Ev &ev) {
    scpi_t ctx; scpi_interface_t ifc; memset(&ifc, 0, sizeof ifc); ifc.write = capWrite; ifc.error = capErr;
    char inb[16]; scpi_error_t q[4]; scpi_command_t none[] = {SCPI_CMD_LIST_END};
    SCPI_Init(&ctx, none, &ifc, scpi_units_def, 0, 0, 0, 0, inb, sizeof inb, q, 4);
    armLazy(lazy32, nullptr);
    uint64_t n = 0, nt = 0;
    auto one = [&](uint32_t v, int base, int sg) -> bool {
        g_curV = v; g_curBase = base; g_curSigned = sg;
        ctx.output_count = 0; g_capLen = 0;
        if (sg) SCPI_ResultInt32(&ctx, (int32_t) v); else SCPI_ResultUInt32Base(&ctx, v, (int8_t) base);
        g_cap[g_capLen] = 0;
        ctx.param_list.lex_state.buffer = ctx.param_list.lex_state.pos = g_cap; ctx.param_list.lex_state.len = (int) g_capLen;
        ctx.input_count = 0; ctx.cmd_error = FALSE;
        uint32_t back = ~v; scpi_bool_t ok;
        if (sg) ok = SCPI_ParamInt32(&ctx, (int32_t *) &back, TRUE); else ok = SCPI_ParamUInt32(&ctx, &back, TRUE);
        n++;
        if (sg ? ((int32_t) v < 0 || v > 9) : v >= (uint32_t) base) nt++;
        if (!ok || back != v || ctx.cmd_error || SCPI_ErrorCount(&ctx) != 0) {
            RT c = mkInt(sg ? O_I32 : O_U32, v, base);
            std::string m = fmt("result -> parameter round trip on a bare context (result function called outside a handler, as the maintainers' tests do) failed: text '%s' accepted=%d value=%u: ", g_cap, (int) ok, back) + describe(c);
            SCPI_ErrorClear(&ctx);
            failEnum(o, ev, "shortcut", fmt("v=%u\nbase=%d\nsigned=%d\n", v, base, sg), m);
            return ev.failures.size() < 5;
        }
        return true;
    };
    bool complete = !o.quick() && !VF_ASAN;
    bool go = true;
    if (complete) {
        uint64_t lo = (1ULL << 32) * o.worker / o.workers, hi = (1ULL << 32) * (o.worker + 1) / o.workers;
        for (uint64_t v = lo; v < hi && go; v++) {
            if ((v & 0xfff) == 0) vfTick();                 // progress for the hang watchdog
            go = one((uint32_t) v, 10, 1) && one((uint32_t) v, 10, 0);
            if ((v & 15) == 0 && go) go = one((uint32_t) (v * 2654435761u), 2, 0) && one((uint32_t) (v * 2654435761u), 8, 0) && one((uint32_t) (v * 2654435761u), 16, 0);
        }
        ev.exhaustive["all 2^32 values: Int32 and UInt32 decimal result -> parameter (shortcut path); 2^28 multiplicative-hash sample in bases 2, 8, 16"] = true;
    } else {
        uint64_t idx = 0;
        auto take = [&](uint32_t v) { if ((idx++ % o.workers) != (uint64_t) o.worker) return true; return one(v, 10, 1) && one(v, 10, 0) && one(v, 2, 0) && one(v, 8, 0) && one(v, 16, 0); };
        for (uint64_t v = 0; v < (1ULL << 32) && go; v += (o.quick() ? 4093 : 251)) { vfTick(); go = take((uint32_t) v); }
        for (int s = 0; s < 32 && go; s++) for (uint32_t m = 0; m < 1024 && go; m++) go = take(m << s) && take(~(m << s));
        uint64_t p10 = 1;
        for (int e = 0; e < 10 && go; e++, p10 *= 10) for (int d = -16; d <= 16 && go; d++) go = take((uint32_t) (p10 + d)) && take((uint32_t) (0 - (p10 + d)));
        ev.info["c07-sweep32"] = "stratified 32-bit sample (strided, m<<s, powers of ten +-16) x {Int32, UInt32 base 10/2/8/16}";
    }
    disarmLazy();
    ev.eval(n); ev.ntCount(nt); ev.label("sweep32-roundtrips", n);
}

// ---- sub-check: all strings up to length L over an alphabet with both quotes and separators
static void runTextEnum(const Opt &o, Ev &ev) {
    static const char alpha[] = {'a', '"', '\'', ' ', ';', ',', '\n'};
    int maxLen = o.quick() ? 4 : 6;
    uint64_t idx = 0;
    for (int len = 0; len <= maxLen; len++) {
        uint64_t total = 1; for (int i = 0; i < len; i++) total *= 7;
        for (uint64_t k = 0; k < total; k++) {
            if ((idx++ % o.workers) != (uint64_t) o.worker) continue;
            std::string s; uint64_t x = k;
            for (int i = 0; i < len; i++) { s += alpha[x % 7]; x /= 7; }
            for (int via = 0; via < 2; via++) {
                RT c; c.item.kind = O_TEXT; c.item.s = s; c.viaChars = via; c.reader.kind = via ? R_CHARS : R_TEXT; c.reader.n = (int) s.size() + 1;
                std::string m = roundTrip(c);
                ev.eval();
                if (nontrivial(c)) ev.ntCount();
                if (len == 3 && ev.wantSample()) ev.sample("text: '" + vis(s) + "' via " + (via ? "ParamCharacters" : "ParamCopyText(len+1)"));
                if (!m.empty()) { failEnum(o, ev, "one", replayOf(c), m); if (ev.failures.size() >= 5) return; }
            }
        }
    }
    ev.exhaustive[fmt("all strings of length <= %d over {a \" ' space ; , LF}, read back with ParamCopyText(len+1) and ParamCharacters", maxLen)] = true;
}

// ---- sub-check: blocks of every length 0..1100
static void runBlocks(const Opt &o, Ev &ev) {
    uint64_t rng = splitmix(o.seed);
    for (int len = 0; len <= 1100; len++) {
        if ((len % o.workers) != o.worker) continue;
        RT c; c.item.kind = O_BLOCK; c.reader.kind = R_BLOCK;
        for (int i = 0; i < len; i++) { if ((i & 7) == 0) rng = splitmix(rng); c.item.s += (char) (rng >> ((i & 7) * 8)); }
        if (len > 3 && (len & 1)) { c.item.s[1] = '\n'; c.item.s[2] = ';'; c.item.s[len - 1] = '\r'; }
        std::string m = roundTrip(c);
        ev.eval();
        if (nontrivial(c)) ev.ntCount();
        if (!m.empty()) { failEnum(o, ev, "one", replayOf(c), m); if (ev.failures.size() >= 5) return; }
    }
    // far beyond: lengths around every power of ten of the header and around the 15/16-bit marks
    static const int far[] = {9999, 10000, 32767, 32768, 65535, 65536, 70001, 99999, 100000, 131072};
    for (size_t fi = 0; fi < sizeof far / sizeof far[0]; fi++) {
        if ((int) (fi % (size_t) o.workers) != o.worker) continue;
        for (int kind = 0; kind < 2; kind++) {
            RT c;
            if (kind == 0) { c.item.kind = O_BLOCK; c.reader.kind = R_BLOCK; } else { c.item.kind = O_TEXT; c.reader.kind = R_TEXT; c.reader.n = far[fi] + 1; }
            for (int i = 0; i < far[fi]; i++) { if ((i & 7) == 0) rng = splitmix(rng); unsigned ch = (unsigned) (rng >> ((i & 7) * 8)) & 0xff; c.item.s += kind == 0 ? (char) ch : (char) (0x20 + ch % 0x5f); }
            std::string m = roundTrip(c);
            ev.eval(); ev.ntCount(); ev.label(kind == 0 ? "far-out-block" : "far-out-text");
            if (!m.empty()) { failEnum(o, ev, "one", replayOf(c), m); if (ev.failures.size() >= 5) return; }
        }
    }
    // ASCII arrays with more elements than a 8- or 16-bit item counter holds (one result item and one parameter per element)
    static const int farN[] = {255, 256, 257, 600, 32767, 32768, 32769, 40000, 65535, 65536, 65537};
    for (size_t fi = 0; fi < sizeof farN / sizeof farN[0]; fi++) {
        if ((int) ((fi + 5) % (size_t) o.workers) != o.worker) continue;
        RT c; c.item.kind = O_ARR; c.item.format = 0; c.item.elem = 4; c.reader.kind = R_ARR_I32; c.reader.n = farN[fi];
        for (int i = 0; i < farN[fi]; i++) c.item.arr.push_back((uint64_t) (uint32_t) (int32_t) (i % 7 == 0 ? -i : i));
        std::string m = roundTrip(c);
        ev.eval(); ev.ntCount(); ev.label("far-out-ascii-array");
        if (!m.empty()) { failEnum(o, ev, "one", replayOf(c), m.substr(0, 600)); if (ev.failures.size() >= 5) return; }
    }
    ev.exhaustive["arbitrary blocks of every length 0..1100 (bytes derived from the seed, with LF ; CR planted)"] = true;
}

// ---- sub-check: random values of every kind (rapidcheck)
static uint64_t biased64(Src &s) {
    switch (s.weighted({3, 3, 3, 2, 1})) {
        case 0: return s.u64() >> s.range(0, 63);
        case 1: return (1ULL << s.range(0, 63)) + (uint64_t) (int64_t) s.irange(-2, 2);
        case 2: { uint64_t p = 1; int e = (int) s.range(0, 19); while (e--) p *= 10; uint64_t v = p + (uint64_t) (int64_t) s.irange(-2, 2); return s.coin() ? v : 0 - v; }
        case 3: { if (s.coin()) return s.u64(); uint64_t v = 0; int k = (int) s.range(1, 4); for (int i = 0; i < k; i++) { uint64_t p = 1; int e = (int) s.range(0, 19); while (e--) p *= 10; v += p * s.range(1, 9); } return s.coin() ? v : 0 - v; }   // uniform, or a few decimal digits (1000000010)
        default: return s.coin() ? 0x8000000000000000ULL : (s.coin() ? ~0ULL : 0x7fffffffffffffffULL);
    }
}
static double biasedDoubleRaw(Src &s, bool asFloat);
// the property speaks about finite values only: clamp anything that overflows the type
static uint64_t g_exclF1 = 0;
static double biasedDouble(Src &s, bool asFloat) {
    double v = biasedDoubleRaw(s, asFloat);
    // listed finding C07-F1: doubles whose 15-digit text exceeds DBL_MAX read back as infinity
    if (!asFloat && std::isfinite(v) && fabs(v) >= 1.797693134862315e308 && knownActive("C07-F1")) { g_exclF1++; v = v < 0 ? -1.7976931348623e308 : 1.7976931348623e308; }
    if (asFloat) { float f = (float) v; if (!std::isfinite(f)) f = v < 0 ? -3.402823466e+38f : 3.402823466e+38f; return f; }
    if (!std::isfinite(v)) {
        v = v < 0 ? -1.7976931348623157e308 : 1.7976931348623157e308;
        if (knownActive("C07-F1")) { g_exclF1++; v = v < 0 ? -1.7976931348623e308 : 1.7976931348623e308; }
    }
    return v;
}
static double biasedDoubleRaw(Src &s, bool asFloat) {
    int P = asFloat ? 6 : 15;
    switch (s.weighted({4, 2, 3, 1, 1})) {
        case 0: { // random finite bit pattern
            if (asFloat) { uint32_t b = (uint32_t) s.next(); if ((b & 0x7f800000u) == 0x7f800000u) b &= ~0x00800000u; float f; memcpy(&f, &b, 4); return f; }
            uint64_t b = s.u64(); if ((b & 0x7ff0000000000000ULL) == 0x7ff0000000000000ULL) b &= ~0x0010000000000000ULL; double d; memcpy(&d, &b, 8); return d;
        }
        case 1: { int e = s.irange(asFloat ? -45 : -323, asFloat ? 38 : 308); double v = pow(10.0, e) * (double) s.range(1, 9); return s.coin() ? -v : v; }
        case 2: { // d.ddd5 style boundary: P digits followed by a 5 (or 4999 / 5001)
            char buf[64]; int n = 0; buf[n++] = (char) ('1' + s.range(0, 8)); buf[n++] = '.';
            for (int i = 1; i < P; i++) buf[n++] = (char) ('0' + s.range(0, 9));
            static const char *tails[] = {"5", "4999999", "5000001", "49", "51"}; const char *t = tails[s.range(0, 4)];
            n += snprintf(buf + n, sizeof buf - n, "%se%d", t, s.irange(asFloat ? -30 : -300, asFloat ? 30 : 300));
            double v = strtod(buf, nullptr); if (asFloat) v = (float) v; return s.coin() ? -v : v;
        }
        case 3: { if (asFloat) { uint32_t b = (uint32_t) s.range(0, 0x7fffff); float f; memcpy(&f, &b, 4); return f; } uint64_t b = s.u64() & 0xfffffffffffffULL; double d; memcpy(&d, &b, 8); return d; }
        default: return s.coin() ? 0.0 : (double) s.irange(-1000, 1000);
    }
}
static RT decodeRand(Src &s) {
    RT c;
    static const int bases[] = {10, 2, 8, 16};
    switch (s.weighted({3, 3, 3, 3, 3, 2, 3})) {
        case 0: c = mkInt(s.coin() ? O_I64 : O_U64, biased64(s), bases[s.range(0, 3)]); break;
        case 1: c = mkInt(s.coin() ? O_I32 : O_U32, biased64(s) & 0xffffffffULL, bases[s.range(0, 3)]); break;
        case 2: c.item.kind = O_F64; c.item.d = biasedDouble(s, false); c.reader.kind = R_F64; break;
        case 3: c.item.kind = O_F32; c.item.d = biasedDouble(s, true); c.reader.kind = R_F32; break;
        case 4: { // text with arbitrary 7-bit content, no NUL
            c.item.kind = O_TEXT; size_t n = s.prob(1, 4) ? s.range(0, 200) : s.range(0, 24);
            for (size_t i = 0; i < n; i++) { switch (s.weighted({5, 2, 2, 1})) { case 0: c.item.s += (char) s.range(1, 127); break; case 1: c.item.s += '"'; break; case 2: c.item.s += '\''; break; default: c.item.s += s.pickc(",;\r\n #()"); } }
            c.viaChars = s.coin(); c.reader.kind = c.viaChars ? R_CHARS : R_TEXT; c.reader.n = (int) c.item.s.size() + 1; break;
        }
        case 5: { c.item.kind = O_BLOCK; c.reader.kind = R_BLOCK; size_t n = s.range(0, 40); for (size_t i = 0; i < n; i++) c.item.s += (char) s.range(0, 255); break; }
        default: { // ASCII array
            c.item.kind = O_ARR; c.item.format = 0; c.item.elem = (int) s.range(0, 9); size_t n = s.range(1, 12);
            for (size_t i = 0; i < n; i++) {
                if (c.item.elem == 8) { float f = (float) biasedDouble(s, true); uint32_t b; memcpy(&b, &f, 4); c.item.arr.push_back(b); }
                else if (c.item.elem == 9) { double d = biasedDouble(s, false); uint64_t b; memcpy(&b, &d, 8); c.item.arr.push_back(b); }
                else c.item.arr.push_back(biased64(s));
            }
            static const RKind rk[] = {R_ARR_I32, R_ARR_U32, R_ARR_I32, R_ARR_U32, R_ARR_I32, R_ARR_U32, R_ARR_I64, R_ARR_U64, R_ARR_F32, R_ARR_F64};
            c.reader.kind = rk[c.item.elem]; c.reader.n = (int) n; break;
        }
    }
    return c;
}
static std::string bodyRand(Src &s, Ev &ev) {
    RT c = decodeRand(s);
    std::string m = roundTrip(c);
    ev.eval();
    ev.label(fmt("rand-okind%d", (int) c.item.kind));
    if (nontrivial(c)) ev.nt(hashStr(replayOf(c)));
    if (ev.wantSample()) ev.sample("random: " + describe(c));
    if (!ev.frozen) ev.excluded["C07-F1 double whose 15-digit text exceeds DBL_MAX"] = g_exclF1;
    return m;
}

// replay of one shortcut round trip on a fresh bare context
static std::string replayShortcut(const Replay &r) {
    uint32_t v = (uint32_t) strtoul(r.get("v", "0").c_str(), nullptr, 10); int base = (int) r.num("base", 10), sg = (int) r.num("signed");
    scpi_t ctx; scpi_interface_t ifc; memset(&ifc, 0, sizeof ifc); ifc.write = capWrite; ifc.error = capErr;
    char inb[16]; scpi_error_t q[4]; scpi_command_t none[] = {SCPI_CMD_LIST_END};
    SCPI_Init(&ctx, none, &ifc, scpi_units_def, 0, 0, 0, 0, inb, sizeof inb, q, 4);
    ctx.output_count = 0; g_capLen = 0;
    if (sg) SCPI_ResultInt32(&ctx, (int32_t) v); else SCPI_ResultUInt32Base(&ctx, v, (int8_t) base);
    g_cap[g_capLen] = 0;
    ctx.param_list.lex_state.buffer = ctx.param_list.lex_state.pos = g_cap; ctx.param_list.lex_state.len = (int) g_capLen; ctx.input_count = 0;
    uint32_t back = ~v; scpi_bool_t ok = sg ? SCPI_ParamInt32(&ctx, (int32_t *) &back, TRUE) : SCPI_ParamUInt32(&ctx, &back, TRUE);
    if (!ok || back != v) return fmt("bare-context round trip of %u (base %d, signed %d): text '%s' accepted=%d value=%u", v, base, sg, g_cap, (int) ok, back);
    return "";
}

int main(int argc, char **argv) {
    std::vector<Sub> subs;
    subs.push_back({"shortcut", [](const Opt &, Ev &) {}, replayShortcut});
    auto replayOne = [](const Replay &r) { return roundTrip(fromReplay(r)); };
    subs.push_back({"one", [](const Opt &, Ev &) {}, replayOne});
    subs.push_back({"smallints", runSmallInts, replayOne});
    subs.push_back({"sweep32", runSweep32, replayOne});
    subs.push_back({"textenum", runTextEnum, replayOne});
    subs.push_back({"blocks", runBlocks, replayOne});
    subs.push_back({"rand", [](const Opt &o, Ev &ev) { runRandom(o, ev, "rand", 260, o.quick() ? 40000 : 400000, bodyRand); },
                    [](const Replay &r) { auto v = r.choices(); Src s(v); Ev e; return bodyRand(s, e); }});
    return mainWith(argc, argv, "C07", subs);
}
