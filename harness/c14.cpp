// C14 - integer-to-text conversion is exact for every value, base and buffer size.
// Oracle: independent formatter (least-significant digit first into a local
// array, reversed; sign handled on the mathematical value).
#include "common.hpp"
#include "xbuf.hpp"
#include "scpi_all.hpp"
using namespace vf;

// full canonical text of the value; returns its length
static int refText(uint64_t raw, int bits, int base, bool sign, char *out) {
    int b = (base == 2 || base == 8 || base == 16) ? base : 10;
    uint64_t mag = bits == 32 ? (raw & 0xffffffffULL) : raw;
    bool neg = false;
    if (sign && b == 10) {
        if (bits == 32 && (mag & 0x80000000ULL)) { neg = true; mag = (0x100000000ULL - mag); }
        else if (bits == 64 && (mag >> 63)) { neg = true; mag = 0 - mag; }
    }
    char tmp[80];
    int k = 0;
    do { tmp[k++] = "0123456789ABCDEF"[mag % (unsigned) b]; mag /= (unsigned) b; } while (mag);
    int n = 0;
    if (neg) out[n++] = '-';
    while (k) out[n++] = tmp[--k];
    out[n] = 0;
    return n;
}

// variant 0: internal *ToStrBaseSign, variant 1: public wrapper (where one exists)
static size_t callLib(uint64_t raw, int bits, int base, bool sign, int variant, char *buf, size_t len) {
    if (bits == 32) {
        uint32_t v = (uint32_t) raw;
        if (variant == 1 && !sign) return SCPI_UInt32ToStrBase(v, buf, len, (int8_t) base);
        if (variant == 1 && sign && base == 10) return SCPI_Int32ToStr((int32_t) v, buf, len);
        return UInt32ToStrBaseSign(v, buf, len, (int8_t) base, sign);
    }
    if (variant == 1 && !sign) return SCPI_UInt64ToStrBase(raw, buf, len, (int8_t) base);
    if (variant == 1 && sign && base == 10) return SCPI_Int64ToStr((int64_t) raw, buf, len);
    return UInt64ToStrBaseSign(raw, buf, len, (int8_t) base, sign);
}

struct One { uint64_t raw; int bits, base; bool sign; int variant; size_t len; };

static std::string descr(const One &c) {
    return fmt("bits=%d val=0x%llx base=%d sign=%d variant=%d len=%zu", c.bits, (unsigned long long) c.raw, c.base, (int) c.sign, c.variant, c.len);
}
static std::string replayText(const One &c) {
    return fmt("bits=%d\nval=%llu\nbase=%d\nsign=%d\nvariant=%d\nlen=%zu\n", c.bits, (unsigned long long) c.raw, c.base, (int) c.sign, c.variant, c.len);
}

static One g_cur;   // case being executed, for the crash-time replay dump
static std::string lazyOne(const void *) { return "sub=one\n" + replayText(g_cur); }

// exact-size heap buffer (slow path, used where the length matters)
static std::string checkExact(const One &c, bool *nontrivial = nullptr) {
    char T[80];
    int tl = refText(c.raw, c.bits, c.base, c.sign, T);
    XBuf b(c.len);
    g_cur = c;
    size_t r = callLib(c.raw, c.bits, c.base, c.sign, c.variant, b.p, c.len);
    size_t exp = std::min((size_t) tl, c.len);
    if (nontrivial) *nontrivial = (T[0] == '-') || tl >= 2 || (size_t) tl > c.len;
    if (!b.ok()) return "wrote past the buffer: " + descr(c);
    if (r != exp) return fmt("returned %zu, expected %zu (text '%s'): ", r, exp, T) + descr(c);
    if (memcmp(b.p, T, exp) != 0) return fmt("wrote '%s', expected prefix of '%s': ", vis(std::string(b.p, exp)).c_str(), T) + descr(c);
    if (exp < c.len && b.p[exp] != 0) return fmt("no NUL at index %zu although the buffer has %zu bytes: ", exp, c.len) + descr(c);
    return "";
}

// fast path for the big sweeps: one reusable 70-byte buffer with canaries
// returns the text length, or -1 on any mismatch
static inline int fastOk(uint64_t raw, int bits, int base, bool sign, int variant) {
    char T[80];
    int tl = refText(raw, bits, base, sign, T);
    char buf[96];
    memset(buf + 70, 0x5C, 8);
    buf[tl] = 0x7e;
    g_cur = One{raw, bits, base, sign, variant, 70};
    size_t r = callLib(raw, bits, base, sign, variant, buf, 70);
    bool ok = r == (size_t) tl && memcmp(buf, T, tl) == 0 && buf[tl] == 0 && memcmp(buf + 70, "\x5C\x5C\x5C\x5C\x5C\x5C\x5C\x5C", 8) == 0;
    return ok ? tl : -1;
}

static const int kBases[4] = {2, 8, 10, 16};

static void boundary64(std::vector<uint64_t> &v) {
    for (int s = 0; s < 64; s++) for (int d = -2; d <= 2; d++) v.push_back((1ULL << s) + (uint64_t) (int64_t) d);
    uint64_t p = 1;
    for (int e = 0; e < 20; e++) { for (int d = -2; d <= 2; d++) { v.push_back(p + (uint64_t) (int64_t) d); v.push_back(0 - (p + (uint64_t) (int64_t) d)); } if (e < 19) p *= 10; }
    for (int d = -3; d <= 3; d++) { v.push_back((uint64_t) (int64_t) d); v.push_back(0x8000000000000000ULL + (uint64_t) (int64_t) d); v.push_back(0x7fffffffffffffffULL + (uint64_t) (int64_t) d); }
    v.push_back(0x0123456789abcdefULL); v.push_back(0xfedcba9876543210ULL); v.push_back(01234567012345670123ULL);
}

// ---- sub-check: sweep of 32-bit values (stratified in quick, complete in thorough)
static void runSweep32(const Opt &o, Ev &ev) {
    armLazy(lazyOne, nullptr);
    uint64_t nt = 0, n = 0;
    auto one = [&](uint32_t v) {
        if ((v & 0xfff) == 0) vfTick();                     // progress for the hang watchdog
        for (int bi = 0; bi < 4; bi++) for (int sg = 0; sg < 2; sg++) {
            int variant = (int) ((v ^ bi) & 1);
            n++;
            int tl = fastOk(v, 32, kBases[bi], sg, variant);
            if (tl >= 2) nt++;   // negative or >= 2 digits
            if (tl < 0) {
                One c{v, 32, kBases[bi], (bool) sg, variant, 70};
                std::string m = checkExact(c);
                if (m.empty()) m = "fast path mismatch: " + descr(c);
                if (ev.failures.size() < 5) failEnum(o, ev, "one", replayText(c), m);
                if (ev.failures.size() >= 5) return false;
            }
        }
        return true;
    };
    bool complete = !o.quick() && !VF_ASAN;   // the complete sweep runs on the unsanitised build
    if (complete) {
        uint64_t lo = ((uint64_t) 1 << 32) * o.worker / o.workers, hi = ((uint64_t) 1 << 32) * (o.worker + 1) / o.workers;
        for (uint64_t v = lo; v < hi; v++) if (!one((uint32_t) v)) break;
        ev.exhaustive["all 2^32 32-bit values x {signed,unsigned} x bases {2,8,10,16}, 70-byte buffer"] = true;
    } else {
        // stratified 2^24-ish sample: every 251st value, all values with <= 12 significant
        // bits anywhere (and their complements), +-64 around every power of 2 and 10
        uint64_t idx = 0;
        auto take = [&](uint32_t v) { if ((idx++ % o.workers) == (uint64_t) o.worker) return one(v); return true; };
        bool ok = true;
        for (uint64_t v = 0; v < (1ULL << 32) && ok; v += 251) ok = take((uint32_t) v);
        for (int s = 0; s < 32 && ok; s++) for (uint32_t m = 0; m < 4096 && ok; m++) { ok = take(m << s) && take(~(m << s)); }
        uint64_t p10 = 1;
        for (int e = 0; e < 10 && ok; e++, p10 *= 10) for (int d = -64; d <= 64 && ok; d++) ok = take((uint32_t) (p10 + d)) && take((uint32_t) (0 - (p10 + d)));
        for (int s = 0; s < 32 && ok; s++) for (int d = -64; d <= 64 && ok; d++) ok = take((uint32_t) ((1ULL << s) + d));
        ev.info["sweep32"] = "stratified: every 251st value, all m<<s with m<4096 and complements, +-64 around powers of 2 and 10";
    }
    ev.eval(n);
    ev.ntCount(nt);
    ev.label("sweep32-conversions", n);
}

// ---- sub-check: every buffer length 0..70 for boundary values, incl. odd bases
static void runBufLen(const Opt &o, Ev &ev) {
    armLazy(lazyOne, nullptr);
    std::vector<uint64_t> vals;
    boundary64(vals);
    static const int bases[] = {2, 8, 10, 16, 0, 1, 3, 7, 36, -1, 127, -128};
    uint64_t idx = 0;
    for (uint64_t raw : vals) for (int bits : {32, 64}) for (int base : bases) for (int sg = 0; sg < 2; sg++) {
        if ((idx++ % o.workers) != (uint64_t) o.worker) continue;
        for (size_t len = 0; len <= 70; len++) {
            One c{bits == 32 ? (raw & 0xffffffffULL) : raw, bits, base, (bool) sg, (int) ((len ^ idx) & 1), len};
            bool nt = false;
            std::string m = checkExact(c, &nt);
            ev.eval();
            if (nt) ev.ntCount();
            if (len == 3 && ev.wantSample()) { char T[80]; refText(c.raw, bits, base, sg, T); ev.sample(descr(c) + " -> full text '" + T + "'"); }
            if (!m.empty()) { failEnum(o, ev, "one", replayText(c), m); if (ev.failures.size() >= 5) return; }
        }
    }
    // buffers far longer than any text: lengths around the 8- and 16-bit marks (a length narrowed to a small integer type inside
    // the formatter would show here and nowhere below)
    static const size_t farLens[] = {71, 127, 128, 255, 256, 257, 260, 300, 511, 512, 1024, 4096, 65535, 65536, 65537, 70000};
    for (uint64_t raw : {0ULL, 42ULL, 0x80000000ULL, 0xffffffffULL, 0x8000000000000000ULL, ~0ULL, 1234567ULL}) for (int bits : {32, 64}) for (int base : {10, 2, 16}) for (int sg = 0; sg < 2; sg++) {
        if ((idx++ % o.workers) != (uint64_t) o.worker) continue;
        for (size_t len : farLens) {
            One c{bits == 32 ? (raw & 0xffffffffULL) : raw, bits, base, (bool) sg, (int) (len & 1), len};
            std::string m = checkExact(c);
            ev.eval(); ev.ntCount();
            if (!m.empty()) { failEnum(o, ev, "one", replayText(c), m); if (ev.failures.size() >= 5) return; }
        }
    }
    ev.exhaustive["boundary values (powers of 2 and 10 +-2, extremes; 32 and 64 bit) x 12 bases x signed/unsigned x every buffer length 0..70"] = true;
    ev.label("buflen-cases", idx);
}

// ---- sub-check: sparse digit patterns.  Values with one to three non-zero digits in the output base (1000000010, 9000000000000000009,
// 0x8000000100000001 ...) and runs of the largest digit: the inputs on which a formatter that works in groups of digits, skips zero
// groups or pads them goes wrong, and which neither powers +-3 nor uniform values contain
static void runDigits(const Opt &o, Ev &ev) {
    armLazy(lazyOne, nullptr);
    uint64_t idx = 0, n = 0, nts = 0;
    auto one = [&](unsigned __int128 v, int base) -> bool {
        if (v >> 64) return true;
        if ((idx++ % (uint64_t) o.workers) != (uint64_t) o.worker) return true;
        for (int bits : {64, 32}) {
            if (bits == 32 && (v >> 32)) continue;
            for (int sg = 0; sg < 2; sg++) for (int neg = 0; neg < 2; neg++) {
                if (neg && !(sg && base == 10)) continue;
                uint64_t raw = neg ? 0 - (uint64_t) v : (uint64_t) v;
                if (bits == 32) raw &= 0xffffffffULL;
                char T[80]; int tl = refText(raw, bits, base, sg, T);
                for (size_t len : {(size_t) 70, (size_t) (tl > 0 ? tl - 1 : 0), (size_t) tl}) {
                    One c{raw, bits, base, (bool) sg, (int) (n & 1), len};
                    bool nt = false;
                    std::string m = checkExact(c, &nt);
                    n++; if (nt) nts++;
                    if (!m.empty()) { failEnum(o, ev, "one", replayText(c), m); if (ev.failures.size() >= 5) return false; }
                }
            }
        }
        return true;
    };
    struct B { int base, positions; int digs[3]; };
    static const B kB[] = {{10, 20, {1, 5, 9}}, {16, 16, {1, 8, 15}}, {8, 22, {1, 4, 7}}, {2, 64, {1, 1, 1}}};
    for (const B &b : kB) {
        std::vector<unsigned __int128> pw; { unsigned __int128 x = 1; for (int i = 0; i <= b.positions; i++) { pw.push_back(x); x *= (unsigned) b.base; } }
        int nd = b.base == 2 ? 1 : 3;
        for (int p1 = 0; p1 < b.positions; p1++) for (int d1 = 0; d1 < nd; d1++) {
            unsigned __int128 v1 = pw[(size_t) p1] * (unsigned) b.digs[d1];
            if (!one(v1, b.base)) return;
            for (int p2 = 0; p2 < p1; p2++) for (int d2 = 0; d2 < nd; d2++) {
                unsigned __int128 v2 = v1 + pw[(size_t) p2] * (unsigned) b.digs[d2];
                if (!one(v2, b.base)) return;
                if (d1 == 1 || d2 == 1) continue;                                  // triples: smallest and largest digit only
                for (int p3 = 0; p3 < p2; p3++) for (int d3 = 0; d3 < nd; d3 += 2) if (!one(v2 + pw[(size_t) p3] * (unsigned) b.digs[d3], b.base)) return;
            }
            // a run of the largest digit from position p1 down to p2, zeros below
            for (int p2 = 0; p2 < p1; p2++) if (!one(pw[(size_t) p1 + 1] - pw[(size_t) p2], b.base)) return;
        }
    }
    ev.eval(n); ev.ntCount(nts); ev.label("sparse-digit-conversions", n);
    ev.exhaustive["all values with one or two non-zero digits (smallest, middle, largest digit) and all with three (smallest/largest digit) at any positions, and all runs of the largest digit, in bases 10, 16, 8 and 2; signed/unsigned, negated, 32/64 bit; full buffer, one byte short, exact fit"] = true;
}

// ---- sub-check: random 32/64-bit values, bases, lengths through rapidcheck
static One decode(Src &s) {
    One c;
    c.bits = s.coin() ? 64 : 32;
    switch (s.weighted({2, 3, 3, 2, 1})) {
        case 0: c.raw = s.u64() >> s.range(0, 63); break;                        // random magnitude
        case 1: c.raw = (1ULL << s.range(0, 63)) + (uint64_t) (int64_t) s.irange(-3, 3); break;
        case 2: { uint64_t p = 1; int e = (int) s.range(0, 19); while (e--) p *= 10; c.raw = p + (uint64_t) (int64_t) s.irange(-3, 3); if (s.coin()) c.raw = 0 - c.raw; break; }
        case 3: if (s.coin()) c.raw = s.u64(); else { c.raw = 0; int k = (int) s.range(1, 4); for (int i = 0; i < k; i++) { uint64_t p = 1; int e = (int) s.range(0, 19); while (e--) p *= 10; c.raw += p * s.range(1, 9); } if (s.coin()) c.raw = 0 - c.raw; } break;   // uniform, or a few decimal digits
        default: c.raw = s.coin() ? 0x8000000000000000ULL : (s.coin() ? ~0ULL : 0x80000000ULL); break;
    }
    if (c.bits == 32) c.raw &= 0xffffffffULL;
    static const int bases[] = {10, 2, 8, 16, 0, 1, 3, 7, 36, -1, 127};
    c.base = bases[s.weighted({4, 4, 4, 4, 1, 1, 1, 1, 1, 1, 1})];
    c.sign = s.coin();
    c.variant = (int) s.range(0, 1);
    c.len = s.prob(1, 3) ? 70 : s.prob(1, 12) ? (size_t) s.pick(std::vector<int>{255, 256, 257, 260, 512, 1000, 4096, 65536}) : (size_t) s.range(0, 70);
    return c;
}
static std::string bodyRand(Src &s, Ev &ev) {
    One c = decode(s);
    bool nt = false;
    std::string m = checkExact(c, &nt);
    ev.eval();
    if (nt) ev.nt(hashStr(descr(c)));
    ev.label(fmt("rand-bits%d-base%d", c.bits, c.base));
    if (ev.wantSample()) ev.sample("random: " + descr(c));
    return m;
}

int main(int argc, char **argv) {
    std::vector<Sub> subs;
    auto replayOne = [](const Replay &r) {
        One c{(uint64_t) strtoull(r.get("val", "0").c_str(), nullptr, 10), (int) r.num("bits", 32), (int) r.num("base", 10), r.num("sign") != 0, (int) r.num("variant"), (size_t) r.num("len", 70)};
        return checkExact(c);
    };
    subs.push_back({"one", [](const Opt &, Ev &) {}, replayOne});
    subs.push_back({"sweep32", runSweep32, replayOne});
    subs.push_back({"buflen", runBufLen, replayOne});
    subs.push_back({"digits", runDigits, replayOne});
    subs.push_back({"rand", [](const Opt &o, Ev &ev) { disarmLazy(); runRandom(o, ev, "rand", 16, o.quick() ? 200000 : 2000000, bodyRand); },
                    [](const Replay &r) { auto v = r.choices(); Src s(v); Ev e; return bodyRand(s, e); }});
    return mainWith(argc, argv, "C14", subs);
}
