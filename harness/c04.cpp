// C04 - numeric parameters decode to the value their literal denotes.
// The generator knows the structure of every literal, so the expected value is
// computed without the library's tokeniser: canonical text (white space removed)
// -> strtod/strtof (correctly rounded), exact integer arithmetic for integer
// readers, golden unit table for suffixes.
#include "fixture.hpp"
#include <cerrno>
#include "units_golden.hpp"
using namespace vf;

struct Lit {
    std::string text;        // as sent (with white space, suffix)
    std::string canon;       // the number without white space and suffix
    RKind reader = R_F64;
    // expectations
    bool isInt = false; __int128 ival = 0;   // integer literal value
    int base = 10;
    int unitIdx = -1;        // index into kGoldenUnits, -1 none
    int specialTag = -1;     // >= 0: special mnemonic
    bool nearMissSpecial = false;
    bool innerWs = false, hasExp = false, hasFrac = false, hasSign = false, boundary = false;
    int customIdx = -1;       // >= 0: the instrument is initialised with a user-supplied unit table (kCustomUnits) and the suffix is entry customIdx of it
    bool decoy = false;       // a second instrument with another unit table is fed the same bytes first (fixture.hpp)
    int prelude = 0;          // 1..5: another literal, one that leaves libc's range-error state behind, is decoded first on the same context
    int digits = 0;
};

// a user-supplied unit table as an application would write it: names in their usual mixed-case spelling (the table is matched
// case-insensitively, like the shipped all-upper-case one), units and multipliers of the application's choosing
static const scpi_unit_def_t kCustomUnits[] = {
    {"kHz", SCPI_UNIT_HERTZ, 1e3}, {"Hz", SCPI_UNIT_HERTZ, 1}, {"MHz", SCPI_UNIT_HERTZ, 1e6}, {"mV", SCPI_UNIT_VOLT, 1e-3}, {"uV", SCPI_UNIT_VOLT, 1e-6}, {"V", SCPI_UNIT_VOLT, 1},
    {"dBm", SCPI_UNIT_DBM, 1}, {"ms", SCPI_UNIT_SECOND, 1e-3}, {"s", SCPI_UNIT_SECOND, 1}, {"min", SCPI_UNIT_SECOND, 60}, {"Ohm", SCPI_UNIT_OHM, 1}, {"kOhm", SCPI_UNIT_OHM, 1e3},
    {"degC", SCPI_UNIT_CELSIUS, 1}, {"pF", SCPI_UNIT_FARAD, 1e-12}, {"a", SCPI_UNIT_AMPER, 1}, SCPI_UNITS_LIST_END};
static const int kNCustomUnits = (int) (sizeof kCustomUnits / sizeof kCustomUnits[0]) - 1;

static std::string ws(Src &s, int maxn) { std::string w; int n = (int) s.weighted({5, 3, 1, 1}); if (n > maxn) n = maxn; for (int i = 0; i < n; i++) w += s.prob(1, 4) ? '\t' : ' '; return w; }

static uint64_t g_exclF1 = 0;
static void genDecimal(Src &s, Lit &l, bool integerOnly, __int128 lo, __int128 hi) {
    std::string t, c;
    if (integerOnly) {
        // value in [lo, hi], boundary biased
        __int128 v;
        switch (s.weighted({3, 3, 2, 2})) {
            case 0: v = (__int128) s.range(0, 1000); break;
            case 1: { unsigned __int128 span = (unsigned __int128) (hi - lo); unsigned __int128 r = ((unsigned __int128) s.u64() << 64 | s.u64()); v = lo + (__int128) (span == ~(unsigned __int128) 0 ? r : r % (span + 1)); break; }
            case 2: v = hi - (__int128) s.range(0, 3); break;
            default: v = lo + (__int128) s.range(0, 3); break;
        }
        if (v < lo) v = lo; if (v > hi) v = hi;
        l.isInt = true; l.ival = v;
        bool neg = v < 0; unsigned __int128 m = neg ? (unsigned __int128) (-(v + 1)) + 1 : (unsigned __int128) v;
        std::string d; do { d.insert(d.begin(), (char) ('0' + (int) (m % 10))); m /= 10; } while (m);
        if (s.prob(1, 5)) d = std::string(s.range(1, 3), '0') + d;
        if (neg) t = "-"; else if (s.prob(1, 4)) { t = "+"; l.hasSign = true; }
        if (neg) l.hasSign = true;
        t += d; l.digits = (int) d.size();
        l.text = t; l.canon = t;
        return;
    }
    switch (s.weighted({4, 2, 2})) { case 1: t += '+'; l.hasSign = true; break; case 2: t += '-'; l.hasSign = true; break; default: break; }
    if (s.prob(1, 6)) {
        // rounding boundary of the target type: the exact decimal expansion of the midpoint between two adjacent floats
        // (float reader) or doubles (other readers), as written, or moved off the tie by a 1 / by 9s appended many digits
        // further on - closer to the tie than a double can tell for the float case, so a conversion that rounds twice
        // (text -> double -> float) lands on the wrong neighbour
        int mant = l.reader == R_F32 ? 24 : 53;
        uint64_t m = (1ULL << (mant - 1)) | (s.u64() & ((1ULL << (mant - 1)) - 1));
        unsigned __int128 N = (unsigned __int128) (2 * (unsigned __int128) m + 1);        // midpoint = N * 2^(e-1)
        int e = s.irange(-28, mant == 24 ? 30 : 8);
        int k = 0;                                                                           // decimal places of the exact expansion
        if (e - 1 >= 0) N <<= (e - 1); else { k = 1 - e; for (int i = 0; i < k; i++) N *= 5; }
        int how = (int) s.range(0, 2);                                                       // 0 exact tie, 1 just above, 2 just below
        if (how == 2) N -= 1;
        std::string d; { unsigned __int128 x = N; do { d.insert(d.begin(), (char) ('0' + (int) (x % 10))); x /= 10; } while (x); }
        if (how) { int j = (int) s.range(1, 14); while ((int) d.size() + j > 50 && j > 1) j--; d += how == 1 ? std::string((size_t) j - 1, '0') + "1" : std::string((size_t) j, '9'); k += j; }
        l.digits = (int) d.size();
        if (k == 0) t += d;
        else if (s.coin()) { t += d + (s.coin() ? "E-" : "e-") + std::to_string(k); l.hasExp = true; }
        else { if ((int) d.size() <= k) d = std::string((size_t) k - d.size() + 1, '0') + d; t += d.substr(0, d.size() - (size_t) k) + "." + d.substr(d.size() - (size_t) k); l.hasFrac = true; }
        l.text = t; l.canon = t; l.boundary = true;
        return;
    }
    // 1..25 digits as the property quantifies, occasionally up to 52 so that the number approaches the 63 significant
    // characters the white-space-squeezing conversion buffer of the library holds, and occasionally up to 200 (488.2 allows a
    // mantissa of 255 characters): beyond 63 characters a number with inner white space is listed finding C04-F1
    int nd = s.prob(1, 12) ? (s.prob(1, 4) ? (int) s.range(53, 200) : (int) s.range(26, 52)) : s.prob(1, 4) ? (int) s.range(16, 25) : (int) s.range(1, 15);
    l.digits = nd;
    auto digs = [&](int n) { std::string d; for (int i = 0; i < n; i++) d += (char) ('0' + s.range(0, 9)); return d; };
    switch (s.weighted({3, 1, 3, 2})) {
        case 0: t += digs(nd); break;
        case 1: t += digs(nd) + "."; l.hasFrac = true; break;
        case 2: { int a = (int) s.range(1, (uint64_t) std::max(1, nd - 1)); t += digs(a) + "." + digs(std::max(1, nd - a)); l.hasFrac = true; break; }
        default: t += "." + digs(nd); l.hasFrac = true; break;
    }
    c = t;
    if (s.prob(1, 2)) {
        l.hasExp = true;
        std::string w0 = ws(s, 2), w1 = ws(s, 2), e(1, s.coin() ? 'E' : 'e'), sg;
        switch (s.weighted({3, 2, 2})) { case 1: sg = "+"; break; case 2: sg = "-"; break; default: break; }
        int mag = s.prob(1, 6) ? (int) s.range(0, 400) : (int) s.range(0, 40);
        std::string ed = std::to_string(mag); if (s.prob(1, 6)) ed = "0" + ed;
        t += w0 + e + w1 + sg + ed; c += e + sg + ed;
        if (!w0.empty() || !w1.empty()) l.innerWs = true;
    }
    if (l.innerWs && c.size() >= 64 && knownActive("C04-F1")) { g_exclF1++; t = c; l.innerWs = false; }   // steer around the listed finding: same literal without the inner white space
    l.text = t; l.canon = c;
}

static void genNondecimal(Src &s, Lit &l, int maxBits) {
    int base = s.pick(std::vector<int>{16, 8, 2});
    l.base = base; l.isInt = true;
    int bitsPer = base == 16 ? 4 : base == 8 ? 3 : 1;
    int maxDigits = std::max(1, maxBits / bitsPer);
    int nd = (int) s.range(1, (uint64_t) maxDigits);
    std::string d; unsigned __int128 v = 0;
    for (int i = 0; i < nd; i++) { int dig = (int) s.range(0, (uint64_t) base - 1); v = v * (unsigned) base + (unsigned) dig; char ch = "0123456789ABCDEF"[dig]; if (s.coin()) ch = (char) tolower(ch); d += ch; }
    char letter = base == 16 ? 'H' : base == 8 ? 'Q' : 'B'; if (s.coin()) letter = (char) tolower(letter);
    l.ival = (__int128) v; l.digits = nd;
    l.text = std::string("#") + letter + d; l.canon = l.text;
}

static Lit decode(Src &s) {
    Lit l;
    static const RKind readers[] = {R_F64, R_F32, R_NUM, R_I32, R_U32, R_I64, R_U64};
    l.reader = readers[s.weighted({4, 3, 5, 2, 2, 2, 2})];
    int kind = (int) s.weighted({6, 3, 3, 2});   // decimal, nondecimal, decimal+suffix (NUM), special (NUM)
    if (l.reader != R_NUM && kind >= 2) kind = 0;
    __int128 lo = 0, hi = 0; int bits = 64;
    switch (l.reader) {
        case R_I32: lo = -(((__int128) 1) << 31); hi = (((__int128) 1) << 31) - 1; bits = 31; break;
        case R_U32: lo = 0; hi = (((__int128) 1) << 32) - 1; bits = 32; break;
        case R_I64: lo = -(((__int128) 1) << 63); hi = (((__int128) 1) << 63) - 1; bits = 63; break;
        case R_U64: lo = 0; hi = (((__int128) 1) << 64) - 1; bits = 64; break;
        case R_F32: bits = 32; break;      // nondecimal literals read as float go through a 32-bit integer
        default: bits = 64; break;
    }
    bool intReader = l.reader == R_I32 || l.reader == R_U32 || l.reader == R_I64 || l.reader == R_U64;
    if (kind == 0) genDecimal(s, l, intReader, lo, hi);
    else if (kind == 1) genNondecimal(s, l, bits);
    else if (kind == 2) {
        genDecimal(s, l, false, 0, 0);
        l.unitIdx = (int) s.range(0, (uint64_t) kNGoldenUnits - 1);
        if (s.prob(1, 5)) { l.customIdx = (int) s.range(0, (uint64_t) kNCustomUnits - 1); l.unitIdx = -1; }
        std::string u = l.customIdx >= 0 ? kCustomUnits[l.customIdx].name : kGoldenUnits[l.unitIdx].name;
        if (l.customIdx >= 0 && s.coin()) { l.text += ws(s, 2) + u; return l; }      // as the table spells it
        switch (s.range(0, 2)) { case 0: break; case 1: for (auto &ch : u) ch = (char) tolower(ch); break; default: for (auto &ch : u) if (s.coin()) ch = (char) tolower(ch); }
        std::string w = ws(s, 2);
        l.text += w + u;
    } else {
        static const struct { const char *lng; int shortLen; int tag; } sp[] = {{"MINIMUM", 3, SCPI_NUM_MIN}, {"MAXIMUM", 3, SCPI_NUM_MAX}, {"DEFAULT", 3, SCPI_NUM_DEF}, {"UP", 2, SCPI_NUM_UP},
            {"DOWN", 4, SCPI_NUM_DOWN}, {"NAN", 3, SCPI_NUM_NAN}, {"INFINITY", 3, SCPI_NUM_INF}, {"NINF", 4, SCPI_NUM_NINF}, {"AUTO", 4, SCPI_NUM_AUTO}};
        int i = (int) s.range(0, 8);
        std::string t = s.coin() ? std::string(sp[i].lng) : std::string(sp[i].lng).substr(0, (size_t) sp[i].shortLen);
        l.specialTag = sp[i].tag;
        if (s.prob(1, 4)) {   // near miss: neither the short nor the long form
            std::string lng = sp[i].lng;
            if (s.coin() && (int) lng.size() > sp[i].shortLen + 1) t = lng.substr(0, (size_t) sp[i].shortLen + 1); else t += "X";
            l.nearMissSpecial = true;
        }
        switch (s.range(0, 2)) { case 0: break; case 1: for (auto &ch : t) ch = (char) tolower(ch); break; default: for (auto &ch : t) if (s.coin()) ch = (char) tolower(ch); }
        l.text = t; l.canon = t;
    }
    if (s.prob(1, 4)) l.prelude = (int) s.range(1, 5);
    l.decoy = s.prob(1, 4);
    return l;
}

static std::string describe(const Lit &l) { return fmt("reader=%s literal '", kRName[l.reader]) + vis(l.text) + "' (canonical '" + l.canon + "')" + (l.prelude ? fmt(" after an out-of-range literal (prelude %d) on the same context", l.prelude) : "") + (l.customIdx >= 0 ? fmt(" with the user-supplied unit table (entry '%s')", kCustomUnits[l.customIdx].name) : "") + (l.decoy ? " [second instrument interleaved]" : ""); }

static bool g_armLit = false;
static std::string checkLit(const Lit &l, bool *nt = nullptr) {
    if (g_armLit) armCase("sub=lit\nreader=" + std::to_string((int) l.reader) + "\ntext=" + hexEnc(l.text) + "\nunit=" + std::to_string(l.unitIdx) + "\ncanon=" + hexEnc(l.canon) + "\nprelude=" + std::to_string(l.prelude) + "\ndecoy=" + std::to_string((int) l.decoy) + "\ncustom=" + std::to_string(l.customIdx) + "\n");
    InstCfg k; k.bufLen = l.text.size() + 16; k.queueLen = 4;
    Cmd c; c.pattern = "CMD"; Reader r; r.kind = l.reader; c.script.readers.push_back(r); k.cmds.push_back(c);
    static const struct { RKind rd; const char *text; } kPrelude[] = {{R_F32, "1E-50"}, {R_F32, "3.5E38"}, {R_F64, "1e400"}, {R_F64, "-1e-400"}, {R_I64, "99999999999999999999"}};
    if (l.prelude) { Cmd p; p.pattern = "PRE"; Reader pr; pr.kind = kPrelude[l.prelude - 1].rd; p.script.readers.push_back(pr); k.cmds.push_back(p); k.bufLen += 32; }
    k.decoy = l.decoy;
    if (l.customIdx >= 0) k.units = kCustomUnits;
    errno = 0;      // a case does not inherit libc state from the case before it; what precedes the literal is part of the case
    Inst I(k);
    if (l.prelude) {
        // what a conversion leaves behind (errno after an out-of-range literal) must not change the next one
        I.input(std::string("PRE ") + kPrelude[l.prelude - 1].text + "\n");
        I.drainErrors(); I.trace.clear(); I.errors.clear();
    }
    bool ret = I.input("CMD " + l.text + "\n");
    if (nt) *nt = l.hasExp || l.hasFrac || l.hasSign || l.innerWs || l.unitIdx >= 0 || l.customIdx >= 0 || l.base != 10 || l.digits > 15 || l.specialTag >= 0;
    if (!I.invariant.empty()) return I.invariant + ": " + describe(l);
    std::string vline;
    for (auto &x : I.trace) if (x.compare(0, 2, "V:") == 0) vline = x;
    if (l.nearMissSpecial) {
        if (vline.find(":1:0:special") != std::string::npos) return "near miss of a special mnemonic decoded to a tag (" + vline + "): " + describe(l);
        return "";
    }
    std::string pre = fmt("V:%s:1:0:", kRName[l.reader]);
    if (!I.errors.empty()) return fmt("error %d queued for a valid literal: ", I.errors[0]) + describe(l);
    if (!ret || vline.compare(0, pre.size(), pre) != 0) return "reader did not accept the literal (" + vline + "): " + describe(l);
    std::string got = vline.substr(pre.size());
    std::string exp;
    double dv = 0;
    if (l.base == 10) dv = strtod(l.canon.c_str(), nullptr);
    switch (l.reader) {
        case R_F64: exp = bitsD(l.base == 10 ? dv : (double) (uint64_t) l.ival); break;
        case R_F32: exp = bitsF(l.base == 10 ? strtof(l.canon.c_str(), nullptr) : (float) (uint32_t) l.ival); break;
        case R_I32: exp = fmt("%d", (int32_t) l.ival); break;
        case R_U32: exp = fmt("%u", (uint32_t) l.ival); break;
        case R_I64: exp = fmt("%lld", (long long) l.ival); break;
        case R_U64: exp = fmt("%llu", (unsigned long long) l.ival); break;
        case R_NUM:
            if (l.specialTag >= 0) exp = fmt("special:%d:base10", l.specialTag);
            else if (l.customIdx >= 0) exp = fmt("%s:unit%d:base10", bitsD(dv * kCustomUnits[l.customIdx].mult).c_str(), (int) kCustomUnits[l.customIdx].unit);
            else if (l.unitIdx >= 0) exp = fmt("%s:unit%d:base10", bitsD(dv * kGoldenUnits[l.unitIdx].mult).c_str(), kGoldenUnits[l.unitIdx].unit);
            else exp = fmt("%s:unit0:base%d", bitsD(l.base == 10 ? dv : (double) (uint64_t) l.ival).c_str(), l.base);
            break;
        default: break;
    }
    if (got != exp) return "decoded " + got + ", the literal denotes " + exp + ": " + describe(l);
    return "";
}

static std::string body(Src &s, Ev &ev) {
    Lit l = decode(s);
    bool nt = false;
    std::string m = checkLit(l, &nt);
    ev.eval();
    ev.label(std::string(kRName[l.reader]) + (l.specialTag >= 0 ? "-special" : l.unitIdx >= 0 ? "-suffix" : l.base != 10 ? "-nondecimal" : "-decimal"));
    if (l.innerWs) ev.label("white-space-inside-number");
    if (l.prelude) ev.label("after-out-of-range-literal");
    if (l.decoy) ev.label("with-second-instrument-interleaved");
    if (l.customIdx >= 0) ev.label("user-supplied-unit-table");
    if (l.boundary) ev.label(l.reader == R_F32 ? "float-rounding-boundary" : "double-rounding-boundary");
    if (nt) ev.nt(hashStr(std::to_string((int) l.reader) + l.text));
    if (nt && ev.wantSample()) ev.sample(describe(l));
    if (!ev.frozen) ev.excluded["C04-F1 number with inner white space and >= 64 non-blank characters (white space removed)"] = g_exclF1;
    if (l.digits > 52) ev.label("mantissa-longer-than-52-digits");
    return m;
}

// every unit x spellings x a few numbers, every special in short and long form
static void runTable(const Opt &o, Ev &ev) {
    static const char *nums[] = {"1", "-2.5", "1.2e-1", "100"};
    uint64_t idx = 0;
    g_armLit = true;
    for (int u = 0; u < kNGoldenUnits; u++) {
        std::string name = kGoldenUnits[u].name;
        uint64_t ncase = o.quick() ? 6 : (1ULL << name.size());
        for (uint64_t cm = 0; cm < ncase; cm++) for (const char *n : nums) for (const char *w : {"", " ", "  "}) {
            if ((idx++ % (uint64_t) o.workers) != (uint64_t) o.worker) continue;
            std::string sp = name;
            uint64_t mask = o.quick() ? (cm == 0 ? 0 : cm == 1 ? ~0ULL : cm * 0x9e3779b97f4a7c15ULL >> 7) : cm;
            for (size_t i = 0; i < sp.size(); i++) if (mask & (1ULL << i)) sp[i] = (char) tolower(sp[i]);
            Lit l; l.reader = R_NUM; l.canon = n; l.text = std::string(n) + w + sp; l.unitIdx = u; l.hasFrac = true;
            std::string m = checkLit(l);
            ev.eval(); ev.ntCount();
            if (!m.empty()) { failEnum(o, ev, "lit", "reader=" + std::to_string((int) l.reader) + "\ntext=" + hexEnc(l.text) + "\nunit=" + std::to_string(u) + "\ncanon=" + hexEnc(l.canon) + "\n", m); if (ev.failures.size() >= 4) return; }
        }
    }
    g_armLit = false;
    ev.exhaustive[fmt("every row of the golden unit table (%d names) x %s x 4 numbers x 0..2 separating blanks", kNGoldenUnits, o.quick() ? "6 letter-case patterns" : "every letter-case pattern")] = true;
}

int main(int argc, char **argv) {
    std::vector<Sub> subs;
    auto replayLit = [](const Replay &r) {
        Lit l; l.reader = (RKind) r.num("reader", R_NUM); l.text = hexDec(r.get("text")); l.canon = hexDec(r.get("canon")); l.unitIdx = (int) r.num("unit", -1); l.prelude = (int) r.num("prelude", 0); l.decoy = r.num("decoy", 0) != 0; l.customIdx = (int) r.num("custom", -1);
        if (l.canon.empty()) return std::string("replay of a crash case: run it through the rand sub-check (no expected value recorded)");
        return checkLit(l);
    };
    subs.push_back({"lit", [](const Opt &, Ev &) {}, replayLit});
    subs.push_back({"table", runTable, replayLit});
    subs.push_back({"rand", [](const Opt &o, Ev &ev) { runRandom(o, ev, "rand", 80, o.quick() ? 250000 : 2500000, body); },
                    [](const Replay &r) { auto v = r.choices(); Src s(v); Ev e; return body(s, e); }});
    return mainWith(argc, argv, "C04", subs);
}
