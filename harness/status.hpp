// Shared exploration of the status-register machine for C11 (coherence of the
// status byte) and C12 (classification, latching, service request).
// One operation = one public API call or one command line through SCPI_Input.
#pragma once
#include "fixture.hpp"
#include <unordered_set>

namespace vf {

enum OpKind { OP_SET, OP_SETBITS, OP_CLRBITS, OP_PUSH, OP_POP, OP_CLEAR, OP_CMD };
enum CmdKind { CM_CLS, CM_ESRQ, CM_ESE, CM_SRE, CM_STBQ, CM_QUESQ, CM_OPERQ, CM_QUESENA, CM_OPERENA, CM_PRES, CM_ERRQ, CM_ESEQ, CM_SREQ, CM_QUESCONDQ, CM_OPERCONDQ, CM_N };
static const char *const kCmdText[] = {"*CLS", "*ESR?", "*ESE", "*SRE", "*STB?", "STAT:QUES?", "STAT:OPER:EVEN?", "STAT:QUES:ENAB", "STAT:OPER:ENAB", "STAT:PRES",
                                       "SYST:ERR?", "*ESE?", "*SRE?", "STAT:QUES:COND?", "STAT:OPER:COND?"};
static const char *const kRegName[] = {"STB", "SRE", "ESR", "ESE", "OPER", "OPERE", "OPERC", "QUES", "QUESE", "QUESC"};

struct Op {
    int kind = OP_SET;
    int reg = SCPI_REG_ESR;   // OP_SET/SETBITS/CLRBITS
    int val = 0;              // register value / bits / error code / command argument
    int cmd = 0;              // OP_CMD
};
inline std::string opText(const Op &o) {
    switch (o.kind) {
        case OP_SET: return fmt("RegSet(%s,0x%x)", kRegName[o.reg], o.val);
        case OP_SETBITS: return fmt("RegSetBits(%s,0x%x)", kRegName[o.reg], o.val);
        case OP_CLRBITS: return fmt("RegClearBits(%s,0x%x)", kRegName[o.reg], o.val);
        case OP_PUSH: return fmt("ErrorPush(%d)", o.val);
        case OP_POP: return "ErrorPop";
        case OP_CLEAR: return "ErrorClear";
        default: return (o.cmd == CM_ESE || o.cmd == CM_SRE || o.cmd == CM_QUESENA || o.cmd == CM_OPERENA) ? fmt("'%s %d'", kCmdText[o.cmd], o.val) : fmt("'%s'", kCmdText[o.cmd]);
    }
}
inline std::string opsEnc(const std::vector<Op> &v) { std::string s; for (auto &o : v) s += fmt("%d:%d:%d:%d;", o.kind, o.reg, o.val, o.cmd); return s; }
inline std::vector<Op> opsDec(const std::string &s) {
    std::vector<Op> v; const char *p = s.c_str();
    while (*p) { Op o; int n = 0; if (sscanf(p, "%d:%d:%d:%d;%n", &o.kind, &o.reg, &o.val, &o.cmd, &n) < 4 || !n) break; v.push_back(o); p += n; }
    return v;
}
inline std::string opsText(const std::vector<Op> &v) { std::string s; for (auto &o : v) s += opText(o) + " "; return s; }

inline InstCfg statusCfg(int queueLen) {
    InstCfg k; k.bufLen = 64; k.queueLen = queueLen; k.traceValues = false;
    static const struct { const char *pat; const char *lib; } tab[] = {
        {"*CLS", "CLS"}, {"*ESE", "ESE"}, {"*ESE?", "ESEQ"}, {"*ESR?", "ESRQ"}, {"*SRE", "SRE"}, {"*SRE?", "SREQ"}, {"*STB?", "STBQ"},
        {"SYSTem:ERRor[:NEXT]?", "ERRNEXTQ"}, {"SYSTem:ERRor:COUNt?", "ERRCOUNTQ"},
        {"STATus:QUEStionable[:EVENt]?", "QUESEVQ"}, {"STATus:QUEStionable:CONDition?", "QUESCONDQ"}, {"STATus:QUEStionable:ENABle", "QUESENA"}, {"STATus:QUEStionable:ENABle?", "QUESENAQ"},
        {"STATus:OPERation[:EVENt]?", "OPEREVQ"}, {"STATus:OPERation:CONDition?", "OPERCONDQ"}, {"STATus:OPERation:ENABle", "OPERENA"}, {"STATus:OPERation:ENABle?", "OPERENAQ"},
        {"STATus:PRESet", "PRES"}};
    for (auto &t : tab) { Cmd c; c.pattern = t.pat; c.lib = libIndex(t.lib); k.cmds.push_back(c); }
    return k;
}

struct Regs { int r[SCPI_REG_COUNT]; int count; };
inline Regs readRegs(Inst &I) { Regs x; for (int i = 0; i < SCPI_REG_COUNT; i++) x.r[i] = SCPI_RegGet(&I.ctx, (scpi_reg_name_t) i); x.count = SCPI_ErrorCount(&I.ctx); return x; }
inline std::string regsText(const Regs &x) { std::string s; for (int i = 0; i < SCPI_REG_COUNT; i++) s += fmt("%s=0x%x ", kRegName[i], x.r[i]); return s + fmt("errors=%d", x.count); }

inline void applyOp(Inst &I, const Op &o) {
    I.trace.clear(); I.out.clear(); I.controls.clear(); I.errors.clear();
    switch (o.kind) {
        case OP_SET: SCPI_RegSet(&I.ctx, (scpi_reg_name_t) o.reg, (scpi_reg_val_t) o.val); break;
        case OP_SETBITS: SCPI_RegSetBits(&I.ctx, (scpi_reg_name_t) o.reg, (scpi_reg_val_t) o.val); break;
        case OP_CLRBITS: SCPI_RegClearBits(&I.ctx, (scpi_reg_name_t) o.reg, (scpi_reg_val_t) o.val); break;
        case OP_PUSH: SCPI_ErrorPush(&I.ctx, (int16_t) o.val); break;
        case OP_POP: { scpi_error_t e; SCPI_ErrorPop(&I.ctx, &e); break; }
        case OP_CLEAR: SCPI_ErrorClear(&I.ctx); break;
        default: {
            std::string line = kCmdText[o.cmd];
            if (o.cmd == CM_ESE || o.cmd == CM_SRE || o.cmd == CM_QUESENA || o.cmd == CM_OPERENA) line += fmt(" %d", o.val);
            line += "\n";
            I.input(line);
            break;
        }
    }
}

// ---- C11: the status byte equals the summary of the registers behind it
inline std::string coherence(const Regs &x) {
    int stb = x.r[SCPI_REG_STB];
    auto bit = [&](int m) { return (stb & m) != 0; };
    if (bit(0x20) != ((x.r[SCPI_REG_ESR] & x.r[SCPI_REG_ESE]) != 0)) return "STB bit 5 (ESB) != (ESR & ESE) != 0";
    if (bit(0x80) != ((x.r[SCPI_REG_OPER] & x.r[SCPI_REG_OPERE]) != 0)) return "STB bit 7 (OPER summary) != (OPER event & OPER enable) != 0";
    if (bit(0x08) != ((x.r[SCPI_REG_QUES] & x.r[SCPI_REG_QUESE]) != 0)) return "STB bit 3 (QUES summary) != (QUES event & QUES enable) != 0";
    if (bit(0x04) != (x.count > 0)) return "STB bit 2 (error available) != error queue non-empty";
    if (bit(0x40) != (((stb & ~0x40) & x.r[SCPI_REG_SRE]) != 0)) return "STB bit 6 (MSS) != ((STB & ~0x40) & SRE) != 0";
    return "";
}

// ---- C12-i reference classification
inline int classBit(int code) {
    if (code <= -100 && code >= -199) return 0x20;
    if (code <= -200 && code >= -299) return 0x10;
    if (code <= -300 && code >= -399) return 0x08;
    if (code >= 1 && code <= 32767) return 0x08;
    if (code <= -400 && code >= -499) return 0x04;
    if (code <= -500 && code >= -599) return 0x80;
    if (code <= -600 && code >= -699) return 0x40;
    if (code <= -700 && code >= -799) return 0x02;
    if (code <= -800 && code >= -899) return 0x01;
    return 0;
}

// ---- C12-ii: latching, persistence of event bits, service request announcements
inline std::string latchRules(const Regs &a, const Op &o, const Regs &b, Inst &I) {
    // which event registers does this operation define to clear / overwrite?
    bool clrESR = false, clrOPER = false, clrQUES = false;
    int wrESR = -1, wrOPER = -1, wrQUES = -1;
    if (o.kind == OP_CMD) {
        if (o.cmd == CM_CLS) clrESR = clrOPER = clrQUES = true;
        if (o.cmd == CM_ESRQ) clrESR = true;
        if (o.cmd == CM_OPERQ) clrOPER = true;
        if (o.cmd == CM_QUESQ || o.cmd == CM_PRES) clrQUES = true;
    }
    if (o.kind == OP_SET || o.kind == OP_SETBITS || o.kind == OP_CLRBITS) {
        int nv = o.kind == OP_SET ? o.val : o.kind == OP_SETBITS ? (a.r[o.reg] | o.val) : (a.r[o.reg] & ~o.val);
        nv &= 0xffff;
        if (o.reg == SCPI_REG_ESR) wrESR = nv;
        if (o.reg == SCPI_REG_OPER) wrOPER = nv;
        if (o.reg == SCPI_REG_QUES) wrQUES = nv;
        if (o.reg == SCPI_REG_OPERC) { int exp = a.r[SCPI_REG_OPER] | (~a.r[SCPI_REG_OPERC] & nv & 0xffff); if (b.r[SCPI_REG_OPER] != exp) return fmt("condition write: OPER event is 0x%x, expected old | rising bits = 0x%x", b.r[SCPI_REG_OPER], exp); wrOPER = exp; }
        if (o.reg == SCPI_REG_QUESC) { int exp = a.r[SCPI_REG_QUES] | (~a.r[SCPI_REG_QUESC] & nv & 0xffff); if (b.r[SCPI_REG_QUES] != exp) return fmt("condition write: QUES event is 0x%x, expected old | rising bits = 0x%x", b.r[SCPI_REG_QUES] , exp); wrQUES = exp; }
    }
    struct { int reg; bool clr; int wr; } ev[] = {{SCPI_REG_ESR, clrESR, wrESR}, {SCPI_REG_OPER, clrOPER, wrOPER}, {SCPI_REG_QUES, clrQUES, wrQUES}};
    for (auto &e : ev) {
        if (e.clr) { if (b.r[e.reg] != 0) return fmt("%s is 0x%x after an operation defined to clear it", kRegName[e.reg], b.r[e.reg]); }
        else if (e.wr >= 0) { if (b.r[e.reg] != e.wr) return fmt("%s is 0x%x after an explicit write of 0x%x", kRegName[e.reg], b.r[e.reg], e.wr); }
        else if ((a.r[e.reg] & ~b.r[e.reg]) != 0) return fmt("%s lost bits 0x%x in an operation that is not defined to clear it", kRegName[e.reg], a.r[e.reg] & ~b.r[e.reg]);
    }
    if (o.kind == OP_PUSH) { int cb = classBit(o.val); if ((b.r[SCPI_REG_ESR] & cb) != cb) return fmt("error %d did not set its class bit 0x%x in ESR", o.val, cb); if ((b.r[SCPI_REG_ESR] & ~a.r[SCPI_REG_ESR] & ~cb) != 0) return fmt("error %d set other ESR bits 0x%x", o.val, b.r[SCPI_REG_ESR] & ~a.r[SCPI_REG_ESR] & ~cb); }
    // service request
    int srq = 0;
    for (auto &l : I.trace) {
        int ctrl, val, stb;
        if (sscanf(l.c_str(), "C:%d:%d:stb=%d", &ctrl, &val, &stb) == 3 && ctrl == SCPI_CTRL_SRQ) {
            srq++;
            if (!(val & 0x40)) return fmt("service-request callback invoked with value 0x%x (MSS clear)", val);
            if (val != stb) return fmt("service-request callback value 0x%x differs from the status byte 0x%x at that moment", val, stb);
        }
    }
    bool rise = !(a.r[SCPI_REG_STB] & 0x40) && (b.r[SCPI_REG_STB] & 0x40);
    if (rise && srq == 0) return "MSS rose from 0 to 1 without a service-request callback";
    // the same with MSS as it is defined (from the event, enable and SRE registers and the queue) rather than as the status
    // byte happens to show it: a request that is due must be announced even if the summary that feeds MSS was not updated
    auto mssDef = [](const Regs &x) {
        int stb = x.r[SCPI_REG_STB] & ~(0x20 | 0x80 | 0x08 | 0x04 | 0x40);
        if (x.r[SCPI_REG_ESR] & x.r[SCPI_REG_ESE]) stb |= 0x20;
        if (x.r[SCPI_REG_OPER] & x.r[SCPI_REG_OPERE]) stb |= 0x80;
        if (x.r[SCPI_REG_QUES] & x.r[SCPI_REG_QUESE]) stb |= 0x08;
        if (x.count > 0) stb |= 0x04;
        return (stb & x.r[SCPI_REG_SRE] & ~0x40) != 0;
    };
    if (!mssDef(a) && mssDef(b) && srq == 0) return "a service request became due (an enabled summary condition arose with its SRE bit set) without a service-request callback";
    return "";
}

} // namespace vf
