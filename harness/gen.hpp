// Generators shared by the message-level checks (C02, C05, C06, C08, C09, C01):
// command tables from the pattern grammar, header spellings, IEEE 488.2 program
// data of every type (well-formed and malformed), result items.
// Every random choice comes from the choice source (rapidcheck / libFuzzer bytes).
#pragma once
#include "fixture.hpp"
#include "ref_match.hpp"
#include "units_golden.hpp"

namespace vf {

// the last three begin with the short form of an earlier name (ALP, CH, IND) without being ambiguous with it: keyword pairs
// in a prefix relation are where a matcher that compares forms piecewise can go wrong
static const char *const kPoolNames[] = {"ALPha", "BRAvo", "CHarlie", "DELTa", "ECHO", "FOXtrot", "GOLF", "HOTel", "INDia", "JULiett", "KILO", "LIMa", "ALPMode", "CHIrp", "INDEx"};
static const int kNPool = 15;

inline std::string wsp(Src &s, int maxn = 2) { std::string w; int n = (int) s.weighted({6, 2, 1}); if (n > maxn) n = maxn; for (int i = 0; i < n; i++) w += s.prob(1, 4) ? '\t' : ' '; return w; }
inline std::string randCaseOf(Src &s, const std::string &t) {
    std::string o = t;
    switch (s.weighted({2, 1, 1})) { case 0: break; case 1: for (auto &c : o) c = (char) tolower((unsigned char) c); break; default: for (auto &c : o) if (s.coin()) c = (char) tolower((unsigned char) c); }
    return o;
}

// ------------------------------------------------------------------ program data
enum DKind { D_DEC_INT, D_DEC_REAL, D_NONDEC, D_SUFFIX_KNOWN, D_SUFFIX_UNKNOWN, D_CHAR_CHOICE, D_CHAR_BOOL, D_CHAR_SPECIAL, D_CHAR_OTHER, D_STR_DQ, D_STR_SQ, D_BLOCK, D_EXPR, D_KINDS };
static const char *const kDName[] = {"int", "real", "nondec", "suffix", "badsuffix", "choice", "boolmnem", "special", "mnemonic", "dqstring", "sqstring", "block", "expr"};

struct Datum {
    int kind = D_DEC_INT;
    std::string text;          // as written (no surrounding white space)
    // expectations for the matching readers
    long long ival = 0;        // D_DEC_INT, D_NONDEC
    double dval = 0;           // numbers (for D_SUFFIX_KNOWN: value * multiplier)
    int unit = 0, base = 10;
    int tag = 0;               // choice / special tag, bool value
    std::string content;       // decoded string / block bytes
};

struct DatumOpt { bool allowTerminatorBytes = true; bool allowQuoteInBlock = true; size_t maxLen = 24; bool negativeInts = true; };

inline Datum genDatum(Src &s, int kind, const DatumOpt &o = DatumOpt()) {
    Datum d; d.kind = kind;
    switch (kind) {
        case D_DEC_INT: {
            long long v = s.prob(1, 4) ? (long long) s.range(0, 2000000000) : (long long) s.range(0, 300);
            bool neg = o.negativeInts && s.prob(1, 5);
            d.ival = neg ? -v : v; d.dval = (double) d.ival;
            d.text = (neg ? "-" : (s.prob(1, 8) ? "+" : "")) + std::to_string(v);
            break;
        }
        case D_DEC_REAL: {
            std::string t = s.prob(1, 5) ? "-" : "";
            t += std::to_string(s.range(0, 999));
            if (s.coin()) { t += "."; t += std::to_string(s.range(0, 9999)); }
            if (s.coin() || t.find('.') == std::string::npos) { t += s.coin() ? "e" : "E"; if (s.coin()) t += s.coin() ? "-" : "+"; t += std::to_string(s.range(0, 30)); }
            d.text = t; d.dval = strtod(t.c_str(), nullptr); d.ival = (long long) strtoll(t.c_str(), nullptr, 10);
            break;
        }
        case D_NONDEC: {
            int base = s.pick(std::vector<int>{16, 8, 2}); d.base = base;
            int nd = (int) s.range(1, base == 16 ? 7 : base == 8 ? 10 : 31);
            unsigned long long v = 0; std::string dg;
            for (int i = 0; i < nd; i++) { int x = (int) s.range(0, (uint64_t) base - 1); v = v * (unsigned) base + (unsigned) x; char ch = "0123456789ABCDEF"[x]; if (s.coin()) ch = (char) tolower(ch); dg += ch; }
            char L = base == 16 ? 'H' : base == 8 ? 'Q' : 'B'; if (s.coin()) L = (char) tolower(L);
            d.text = std::string("#") + L + dg; d.ival = (long long) v; d.dval = (double) v;
            break;
        }
        case D_SUFFIX_KNOWN: {
            Datum n = genDatum(s, s.coin() ? D_DEC_INT : D_DEC_REAL, o);
            int u = (int) s.range(0, (uint64_t) kNGoldenUnits - 1);
            d.text = n.text + wsp(s, 1) + randCaseOf(s, kGoldenUnits[u].name);
            d.dval = strtod(n.text.c_str(), nullptr) * kGoldenUnits[u].mult; d.unit = kGoldenUnits[u].unit;
            break;
        }
        case D_SUFFIX_UNKNOWN: {
            Datum n = genDatum(s, D_DEC_INT, o);
            static const char *bad[] = {"XYZ", "QQ", "VOLTS", "ZZ2", "W/ZZ"};
            d.text = n.text + wsp(s, 1) + bad[s.range(0, 4)];
            break;
        }
        case D_CHAR_CHOICE: { static const struct { const char *t; int tag; } c[] = {{"ALPH", 1}, {"ALPHA", 1}, {"BETA", 2}, {"GAMM", 3}, {"GAMMA", 3}, {"D", 4}}; int i = (int) s.range(0, 5); d.text = randCaseOf(s, c[i].t); d.tag = c[i].tag; break; }
        case D_CHAR_BOOL: { bool on = s.coin(); d.text = randCaseOf(s, on ? "ON" : "OFF"); d.tag = on; break; }
        case D_CHAR_SPECIAL: { static const struct { const char *t; int tag; } c[] = {{"MIN", SCPI_NUM_MIN}, {"MAXIMUM", SCPI_NUM_MAX}, {"DEF", SCPI_NUM_DEF}, {"UP", SCPI_NUM_UP}, {"DOWN", SCPI_NUM_DOWN}, {"INF", SCPI_NUM_INF}, {"AUTO", SCPI_NUM_AUTO}}; int i = (int) s.range(0, 6); d.text = randCaseOf(s, c[i].t); d.tag = c[i].tag; break; }
        case D_CHAR_OTHER: { static const char *c[] = {"FOO", "BAR_1", "X", "ONN", "MINI", "ALP", "Q9"}; d.text = randCaseOf(s, c[s.range(0, 6)]); break; }
        case D_STR_DQ: case D_STR_SQ: {
            char q = kind == D_STR_DQ ? '"' : '\'';
            size_t n = s.range(0, o.maxLen);
            std::string c, t(1, q);
            for (size_t i = 0; i < n; i++) {
                char ch;
                switch (s.weighted({8, 2, 1, 1})) {
                    case 0: ch = (char) s.range(0x20, 0x7e); break;
                    case 1: ch = q; break;
                    case 2: ch = q == '"' ? '\'' : '"'; break;
                    default: ch = o.allowTerminatorBytes ? s.pickc(";,\r\n\t") : s.pickc(";,\t "); break;
                }
                c += ch; t += ch; if (ch == q) t += q;
            }
            t += q; d.text = t; d.content = c;
            break;
        }
        case D_BLOCK: {
            size_t n = s.prob(1, 6) ? s.range(0, 120) : s.range(0, o.maxLen);
            std::string c;
            for (size_t i = 0; i < n; i++) {
                char ch = s.prob(1, 4) ? s.pickc(o.allowTerminatorBytes ? "\r\n;,#" : ";,#") : (char) s.range(0, 255);
                if (!o.allowTerminatorBytes && (ch == '\r' || ch == '\n')) ch = 'n';
                if (!o.allowQuoteInBlock && (ch == '"' || ch == '\'')) ch = 'q';
                c += ch;
            }
            std::string ls = std::to_string(n);
            if (s.prob(1, 5)) ls = std::string(s.range(1, 2), '0') + ls;      // leading zeros in the length field are allowed
            d.text = "#" + std::to_string(ls.size()) + ls + c; d.content = c;
            break;
        }
        case D_EXPR: {
            static const char *c[] = {"(1)", "(1,2)", "(1:3,5)", "(@1)", "(@1!2:3!4,7)", "(a+b)", "()", "(1, 2)", "(@2,x)"};
            d.text = c[s.range(0, 8)]; d.content = d.text;
            break;
        }
        default: break;
    }
    return d;
}

// malformed program-data fragments (never valid as a parameter)
inline std::string genMalformed(Src &s) {
    static const char *frag[] = {"\"abc", "'abc", "#", "#Z12", "#0", "#3ab", "@", "!", ")", "(1", "1 2", "\x80", "\xff\xfe", "$", "#H", "#B2", "1,,2", "\"a\"b", "(a(b))", "="};
    return frag[s.range(0, 19)];
}

// ------------------------------------------------------------------ result items
inline OItem genItem(Src &s) {
    OItem it;
    static const int bases[] = {10, 2, 8, 16};
    switch (s.weighted({4, 3, 2, 2, 2, 2, 2, 2, 1})) {
        case 0: it.kind = O_I32; it.u = (uint64_t) (int64_t) s.irange(-1000, 1000); break;
        case 1: it.kind = s.coin() ? O_U32 : O_U16; it.u = s.range(0, 65535); it.base = bases[s.range(0, 3)]; break;
        case 2: it.kind = s.coin() ? O_I64 : O_U64; it.u = s.u64() >> s.range(0, 63); it.base = bases[s.range(0, 3)]; break;
        case 3: it.kind = O_BOOL; it.u = s.coin(); break;
        case 4: it.kind = s.coin() ? O_F64 : O_F32; it.d = (double) s.irange(-5000, 5000) / (double) (1 << s.range(0, 2)); break;   // exactly representable in 6 digits: the same text in every formatter
        case 5: it.kind = O_MNEM; it.s = s.pick(std::vector<std::string>{"OK", "VOLT", "a_1", "0"}); break;
        case 6: { it.kind = O_TEXT; size_t n = s.range(0, 10); for (size_t i = 0; i < n; i++) it.s += s.prob(1, 4) ? '"' : (char) s.range(0x20, 0x7e); break; }
        case 7: { it.kind = O_BLOCK; size_t n = s.range(0, 12); for (size_t i = 0; i < n; i++) it.s += (char) s.range(0, 255); break; }
        default: { it.kind = O_ARR; it.elem = (int) s.range(0, 7); it.format = (int) s.range(0, 2); size_t n = s.prob(1, 25) ? (s.prob(1, 12) ? s.range(32760, 33000) : s.range(250, 600)) : s.range(1, 4);   /* now and then a trace-sized array: more items than an 8-bit - rarely: a 16-bit - counter holds */
                   for (size_t i = 0; i < n; i++) it.arr.push_back(s.range(0, 200)); break; }
    }
    return it;
}

// independent renderer of one result item (the text the library must emit for it, without delimiter)
inline std::string renderItem(const OItem &it) {
    auto inBase = [](unsigned long long v, int base) { if (base == 10) return std::to_string(v); std::string d; do { d.insert(d.begin(), "0123456789ABCDEF"[v % (unsigned) base]); v /= (unsigned) base; } while (v); return std::string(base == 16 ? "#H" : base == 8 ? "#Q" : "#B") + d; };
    char b[64];
    switch (it.kind) {
        case O_I8: return std::to_string((int) (int8_t) it.u);
        case O_I16: return std::to_string((int) (int16_t) it.u);
        case O_I32: return std::to_string((int32_t) it.u);
        case O_I64: return std::to_string((long long) it.u);
        case O_U8: return inBase((uint8_t) it.u, it.base);
        case O_U16: return inBase((uint16_t) it.u, it.base);
        case O_U32: return inBase((uint32_t) it.u, it.base);
        case O_U64: return inBase(it.u, it.base);
        case O_BOOL: return it.u ? "1" : "0";
        case O_F32: snprintf(b, sizeof b, "%g", (double) (float) it.d); return b;
        case O_F64: snprintf(b, sizeof b, "%.15g", it.d); return b;
        case O_MNEM: return it.s;
        case O_TEXT: { std::string t = "\""; for (char c : it.s) { t += c; if (c == '"') t += '"'; } return t + "\""; }
        case O_BLOCK: { std::string l = std::to_string(it.s.size()); return "#" + std::to_string(l.size()) + l + it.s; }
        case O_ARR: {
            static const size_t esz[] = {1, 1, 2, 2, 4, 4, 8, 8, 4, 8};
            if (it.format == 0) {
                std::string t;
                for (size_t i = 0; i < it.arr.size(); i++) {
                    OItem e; e.base = 10; e.u = it.arr[i];
                    static const OKind k[] = {O_I8, O_U8, O_I16, O_U16, O_I32, O_U32, O_I64, O_U64};
                    e.kind = k[it.elem];
                    t += (i ? "," : "") + renderItem(e);
                }
                return t;
            }
            size_t es = esz[it.elem]; std::string l = std::to_string(it.arr.size() * es), t = "#" + std::to_string(l.size()) + l;
            for (uint64_t v : it.arr) for (size_t k = 0; k < es; k++) t += (char) ((v >> ((it.format == 1 ? es - 1 - k : k) * 8)) & 0xff);
            return t;
        }
        default: return "";
    }
}
// number of result items an OItem counts as (ASCII arrays emit one item per element)
inline size_t itemCount(const OItem &it) { return (it.kind == O_ARR && it.format == 0) ? it.arr.size() : 1; }

// ------------------------------------------------------------------ command tables
struct GenKeyword { int name; bool optional, numeric; };
struct GenPattern { std::vector<GenKeyword> kw; bool query = false; bool common = false; std::string commonName; std::string text; };

inline std::string patternText(const GenPattern &p) {
    if (p.kw.empty() && !p.common && !p.text.empty()) return p.text;     // pattern given as text (fixed tables)
    if (p.common) return "*" + p.commonName + (p.query ? "?" : "");
    std::string t;
    for (size_t i = 0; i < p.kw.size(); i++) {
        std::string k = std::string(i ? ":" : "") + kPoolNames[p.kw[i].name] + (p.kw[i].numeric ? "#" : "");
        if (p.kw[i].optional) t += "[" + std::string(i ? "" : ":") + k + "]"; else t += k;
    }
    return t + (p.query ? "?" : "");
}

// tree-shaped table with shared prefixes; optionally overlapping / duplicate patterns
inline std::vector<GenPattern> genTable(Src &s, int minN = 3, int maxN = 10, bool overlaps = true) {
    std::vector<GenPattern> tab;
    int n = (int) s.range((uint64_t) minN, (uint64_t) maxN);
    // a few path prefixes to share
    std::vector<std::vector<GenKeyword>> prefixes;
    int np = (int) s.range(1, 3);
    for (int i = 0; i < np; i++) {
        std::vector<GenKeyword> p;
        int len = (int) s.range(1, 2);
        std::vector<int> used;
        for (int k = 0; k < len; k++) {
            std::vector<int> fr; for (int x = 0; x < kNPool; x++) if (std::find(used.begin(), used.end(), x) == used.end()) fr.push_back(x);
            int nm = fr[s.range(0, fr.size() - 1)]; used.push_back(nm);
            p.push_back({nm, k > 0 && s.prob(1, 4), s.prob(1, 6)});
        }
        prefixes.push_back(p);
    }
    for (int i = 0; i < n; i++) {
        GenPattern p;
        if (s.prob(1, 7)) { p.common = true; p.commonName = s.pick(std::vector<std::string>{"IDN", "RST", "TST", "OPT", "XYZ"}); p.query = s.coin(); p.text = patternText(p); tab.push_back(p); continue; }
        if (overlaps && !tab.empty() && s.prob(1, 6)) {   // overlapping pattern: an earlier one with an optional keyword made mandatory / dropped, or an exact duplicate
            GenPattern q = tab[s.range(0, tab.size() - 1)];
            if (!q.common) {
                size_t at = s.range(0, q.kw.size() - 1);
                switch (s.range(0, 2)) { case 0: q.kw[at].optional = false; break; case 1: if (q.kw.size() > 1 && q.kw[at].optional) q.kw.erase(q.kw.begin() + (long) at); break; default: break; }
                q.text = patternText(q); tab.push_back(q); continue;
            }
        }
        p.kw = prefixes[s.range(0, prefixes.size() - 1)];
        std::vector<int> used; for (auto &k : p.kw) used.push_back(k.name);
        int extra = (int) s.range(0, 2);
        for (int k = 0; k < extra; k++) {
            std::vector<int> fr; for (int x = 0; x < kNPool; x++) if (std::find(used.begin(), used.end(), x) == used.end()) fr.push_back(x);
            int nm = fr[s.range(0, fr.size() - 1)]; used.push_back(nm);
            p.kw.push_back({nm, s.prob(1, 4), s.prob(1, 6)});
        }
        p.query = s.prob(2, 5);
        p.text = patternText(p);
        tab.push_back(p);
    }
    return tab;
}

// a correct spelling of pattern p: which optional keywords are present, short/long form, case, numeric suffix
struct Spelling { std::vector<std::string> mnemonics; bool query; };
inline Spelling spellPattern(Src &s, const GenPattern &p) {
    Spelling sp; sp.query = p.query;
    if (p.common) { sp.mnemonics.push_back("*" + p.commonName); return sp; }
    RefPattern rp = refParsePattern(patternText(p));
    for (size_t j = 0; j < rp.kw.size(); j++) {
        if (rp.kw[j].optional && s.coin()) continue;
        std::string m = s.coin() ? rp.kw[j].shortForm : rp.kw[j].longForm;
        if (rp.kw[j].numeric && s.prob(2, 3)) m += std::to_string(s.range(0, s.coin() ? 9 : 99999));
        sp.mnemonics.push_back(m);
    }
    if (sp.mnemonics.empty()) sp.mnemonics.push_back(rp.kw.back().shortForm);
    return sp;
}
inline std::string joinHeader(const std::vector<std::string> &mn, size_t from, bool leadingColon, bool query) {
    std::string h = leadingColon ? ":" : "";
    for (size_t i = from; i < mn.size(); i++) h += (i > from ? ":" : "") + mn[i];
    return h + (query ? "?" : "");
}

// a data kind the given reader accepts
static const RKind kScalarReaders[] = {R_I32, R_U32, R_I64, R_U64, R_F32, R_F64, R_NUM, R_BOOL, R_CHOICE, R_CHARS, R_TEXT, R_BLOCK, R_RAW};
inline int compatibleKind(Src &s, const Reader &r) {
    switch (r.kind) {
        case R_I32: case R_I64: case R_F32: case R_F64: case R_ARR_I32: case R_ARR_F64: return (int) s.pick(std::vector<int>{D_DEC_INT, D_DEC_INT, D_DEC_REAL, D_NONDEC});
        case R_U32: case R_U64: case R_ARR_U32: return (int) s.pick(std::vector<int>{D_DEC_INT, D_NONDEC});
        case R_NUM: return (int) s.pick(std::vector<int>{D_DEC_INT, D_DEC_REAL, D_NONDEC, D_SUFFIX_KNOWN, D_SUFFIX_KNOWN, D_CHAR_SPECIAL});
        case R_BOOL: return (int) s.pick(std::vector<int>{D_DEC_INT, D_CHAR_BOOL});
        case R_CHOICE: return D_CHAR_CHOICE;
        case R_TEXT: return s.coin() ? D_STR_DQ : D_STR_SQ;
        case R_BLOCK: return D_BLOCK;
        default: return (int) s.range(0, D_KINDS - 1);
    }
}


} // namespace vf
