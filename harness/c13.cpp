// C13 - the tokenizer recognises exactly the IEEE 488.2 program-data token syntax.
// Oracle: independent recognisers written from IEEE 488.2 section 7 as narrowed by
// the source's documentation (relaxed suffix, definite-length blocks only, flat
// expressions); compared on all short strings over per-recogniser class alphabets.
#include "fixture.hpp"
using namespace vf;

struct RefTok { int ret = 0; int type = SCPI_TOKEN_UNKNOWN; int tokOff = 0; int tokLen = 0; int consumed = 0; bool ptrChecked = true; };
typedef std::string S;
static bool isWs(char c) { return c == ' ' || c == '\t'; }
static bool isAl(char c) { return isalpha((unsigned char) c) != 0; }
static bool isDg(char c) { return isdigit((unsigned char) c) != 0; }
static size_t mnLen(const S &s, size_t p) { if (p >= s.size() || !isAl(s[p])) return 0; size_t i = p + 1; while (i < s.size() && (isalnum((unsigned char) s[i]) || s[i] == '_')) i++; return i - p; }

static RefTok rWhite(const S &s) { RefTok r; size_t i = 0; while (i < s.size() && isWs(s[i])) i++; if (i) { r.ret = r.tokLen = r.consumed = (int) i; r.type = SCPI_TOKEN_WS; } return r; }
static RefTok rNewLine(const S &s) { RefTok r; size_t i = 0; if (i < s.size() && s[i] == '\r') i++; if (i < s.size() && s[i] == '\n') i++; if (i) { r.ret = r.tokLen = r.consumed = (int) i; r.type = SCPI_TOKEN_NL; } return r; }
static RefTok rChar(const S &s, char c, int type) { RefTok r; if (!s.empty() && s[0] == c) { r.ret = r.tokLen = r.consumed = 1; r.type = type; } return r; }
static RefTok rMnemonic(const S &s) { RefTok r; size_t n = mnLen(s, 0); if (n) { r.ret = r.tokLen = r.consumed = (int) n; r.type = SCPI_TOKEN_PROGRAM_MNEMONIC; } return r; }
static RefTok rHeader(const S &s) {
    RefTok r; size_t i = 0; int type;
    if (!s.empty() && s[0] == '*') {
        size_t m = mnLen(s, 1);
        if (!m) { i = 1; type = SCPI_TOKEN_INCOMPLETE_COMMON_PROGRAM_HEADER; }
        else { i = 1 + m; if (i < s.size() && s[i] == '?') { i++; type = SCPI_TOKEN_COMMON_QUERY_PROGRAM_HEADER; } else type = SCPI_TOKEN_COMMON_PROGRAM_HEADER; }
    } else {
        bool colon = !s.empty() && s[0] == ':';
        i = colon ? 1 : 0;
        size_t m = mnLen(s, i);
        if (!m) { if (!colon) return r; i = 1; type = SCPI_TOKEN_INCOMPLETE_COMPOUND_PROGRAM_HEADER; }
        else {
            i += m; bool incomplete = false;
            while (i < s.size() && s[i] == ':') { size_t m2 = mnLen(s, i + 1); if (!m2) { i++; incomplete = true; break; } i += 1 + m2; }
            if (incomplete) type = SCPI_TOKEN_INCOMPLETE_COMPOUND_PROGRAM_HEADER;
            else if (i < s.size() && s[i] == '?') { i++; type = SCPI_TOKEN_COMPOUND_QUERY_PROGRAM_HEADER; }
            else type = SCPI_TOKEN_COMPOUND_PROGRAM_HEADER;
        }
    }
    r.ret = r.tokLen = r.consumed = (int) i; r.type = type;
    return r;
}
static size_t decLen(const S &b, size_t p) {
    size_t i = p, digits = 0;
    if (i < b.size() && (b[i] == '+' || b[i] == '-')) i++;
    while (i < b.size() && isDg(b[i])) { i++; digits++; }
    if (i < b.size() && b[i] == '.') { i++; while (i < b.size() && isDg(b[i])) { i++; digits++; } }
    if (!digits) return 0;
    size_t j = i;
    while (j < b.size() && isWs(b[j])) j++;
    if (j < b.size() && (b[j] == 'e' || b[j] == 'E')) {
        j++; while (j < b.size() && isWs(b[j])) j++;
        if (j < b.size() && (b[j] == '+' || b[j] == '-')) j++;
        size_t d0 = j; while (j < b.size() && isDg(b[j])) j++;
        if (j > d0) i = j;
    }
    return i - p;
}
static RefTok rDecimal(const S &s) { RefTok r; size_t n = decLen(s, 0); if (n) { r.ret = r.tokLen = r.consumed = (int) n; r.type = SCPI_TOKEN_DECIMAL_NUMERIC_PROGRAM_DATA; } return r; }
// strict 488.2 suffix: /? alpha+ (-? digit)? ((/|.) alpha+ (-? digit)?)*   -> the library must accept at least this far
static size_t strictSuffixLen(const S &s, size_t p) {
    size_t i = p;
    if (i < s.size() && s[i] == '/') i++;
    auto unit = [&](size_t &k) { size_t a = k; while (k < s.size() && isAl(s[k])) k++; if (k == a) return false; size_t sv = k; if (k < s.size() && s[k] == '-') k++; if (k < s.size() && isDg(s[k])) k++; else k = sv; return true; };
    if (!unit(i)) return 0;
    while (i < s.size() && (s[i] == '/' || s[i] == '.')) { size_t k = i + 1; if (!unit(k)) break; i = k; }
    return i - p;
}
// relaxed suffix as the source documents it: /? alpha+ -? digit? ((/|.) alpha* -? digit?)*  ('/' alone counts)
static size_t relaxedSuffixLen(const S &s, size_t p) {
    size_t i = p;
    if (i < s.size() && s[i] == '/') i++;
    size_t a = i; while (i < s.size() && isAl(s[i])) i++;
    if (i > a) {
        if (i < s.size() && s[i] == '-') i++;
        if (i < s.size() && isDg(s[i])) i++;
        while (i < s.size() && (s[i] == '/' || s[i] == '.')) { i++; while (i < s.size() && isAl(s[i])) i++; if (i < s.size() && s[i] == '-') i++; if (i < s.size() && isDg(s[i])) i++; }
    }
    return i - p;
}
static RefTok rNondec(const S &s) {
    RefTok r;
    if (s.size() < 3 || s[0] != '#') return r;
    char L = (char) toupper((unsigned char) s[1]); size_t i = 2;
    auto ok = [&](char c) { return L == 'H' ? isxdigit((unsigned char) c) != 0 : L == 'Q' ? (c >= '0' && c <= '7') : L == 'B' ? (c == '0' || c == '1') : false; };
    while (i < s.size() && ok(s[i])) i++;
    if (i == 2) return r;
    r.type = L == 'H' ? SCPI_TOKEN_HEXNUM : L == 'Q' ? SCPI_TOKEN_OCTNUM : SCPI_TOKEN_BINNUM;
    r.ret = r.consumed = (int) i; r.tokOff = 2; r.tokLen = (int) i - 2;
    return r;
}
static RefTok rString(const S &s) {
    RefTok r;
    if (s.empty() || (s[0] != '"' && s[0] != '\'')) return r;
    char q = s[0]; size_t i = 1;
    while (i < s.size()) {
        unsigned char c = (unsigned char) s[i];
        if (c > 0x7f) return r;
        if (s[i] == q) { if (i + 1 < s.size() && s[i + 1] == q) { i += 2; continue; } r.ret = r.tokLen = r.consumed = (int) i + 1; r.type = q == '"' ? SCPI_TOKEN_DOUBLE_QUOTE_PROGRAM_DATA : SCPI_TOKEN_SINGLE_QUOTE_PROGRAM_DATA; return r; }
        i++;
    }
    return r;
}
static RefTok rBlock(const S &s) {   // incomplete at end of input: nothing recognised, but the rest is swallowed (documented)
    RefTok r;
    if (s.empty() || s[0] != '#') return r;
    auto swallow = [&]() { r.consumed = (int) s.size(); r.ptrChecked = false; return r; };
    if (s.size() == 1) return swallow();
    if (!(s[1] >= '1' && s[1] <= '9')) return r;
    size_t n = (size_t) (s[1] - '0'), i = 2; uint64_t L = 0;
    for (size_t k = 0; k < n; k++, i++) { if (i >= s.size()) return swallow(); if (!isDg(s[i])) return r; L = L * 10 + (uint64_t) (s[i] - '0'); }
    if (i + L > s.size()) return swallow();
    r.type = SCPI_TOKEN_ARBITRARY_BLOCK_PROGRAM_DATA; r.tokOff = (int) i; r.tokLen = (int) L; r.ret = r.consumed = (int) (i + L);
    return r;
}
static RefTok rExpr(const S &s) {
    RefTok r;
    if (s.empty() || s[0] != '(') return r;
    size_t i = 1;
    while (i < s.size()) { unsigned char c = (unsigned char) s[i]; if (c < 0x20 || c > 0x7e || c == '"' || c == '#' || c == '\'' || c == '(' || c == ')' || c == ';') break; i++; }
    if (i < s.size() && s[i] == ')') { r.ret = r.tokLen = r.consumed = (int) i + 1; r.type = SCPI_TOKEN_PROGRAM_EXPRESSION; }
    return r;
}
// one program datum with surrounding white space
static RefTok rProgramData(const S &s, bool *swallowed = nullptr) {
    RefTok r; size_t lead = 0; while (lead < s.size() && isWs(s[lead])) lead++;
    S rest = s.substr(lead);
    RefTok d;
    bool sw = false;
    if ((d = rNondec(rest)).ret) {}
    else if ((d = rMnemonic(rest)).ret) {}
    else if ((d = rDecimal(rest)).ret) {
        size_t k = (size_t) d.ret; while (k < rest.size() && isWs(rest[k])) k++;
        // data extents follow the documented relaxed suffix syntax (the strict syntax is checked one-sidedly in checkSuffix)
        size_t sl = relaxedSuffixLen(rest, k);
        if (sl) { d.ret = d.tokLen = d.consumed = (int) (k + sl); d.type = SCPI_TOKEN_DECIMAL_NUMERIC_PROGRAM_DATA_WITH_SUFFIX; }
    }
    else if ((d = rString(rest)).ret) {}
    else { d = rBlock(rest); if (!d.ret && d.consumed) sw = true; if (!d.ret && !sw) d = rExpr(rest); }
    if (swallowed) *swallowed = sw;
    if (sw) { r.consumed = (int) s.size(); r.ret = (int) lead; r.ptrChecked = false; return r; }
    size_t after = lead + (size_t) d.ret, trail = 0;
    while (after + trail < s.size() && isWs(s[after + trail])) trail++;
    r.type = d.type; r.tokOff = (int) lead + d.tokOff; r.tokLen = d.tokLen;
    r.ret = r.consumed = (int) (lead + (size_t) d.ret + trail);
    if (!d.ret) { r.ptrChecked = false; }
    return r;
}

typedef int (*LexFn)(lex_state_t *, scpi_token_t *);
static int lexColon(lex_state_t *s, scpi_token_t *t) { return scpiLex_Colon(s, t); }
static int lexSpecific(lex_state_t *s, scpi_token_t *t) { return scpiLex_SpecificCharacter(s, t, '@'); }

struct Rec { const char *name; LexFn fn; RefTok (*ref)(const S &); const char *alphabet; bool retIsTokLen; };
static RefTok refComma(const S &s) { return rChar(s, ',', SCPI_TOKEN_COMMA); }
static RefTok refSemi(const S &s) { return rChar(s, ';', SCPI_TOKEN_SEMICOLON); }
static RefTok refColon(const S &s) { return rChar(s, ':', SCPI_TOKEN_COLON); }
static RefTok refSpecific(const S &s) { return rChar(s, '@', SCPI_TOKEN_SPECIFIC_CHARACTER); }
static RefTok refPD(const S &s) { return rProgramData(s); }
static const Rec kRecs[] = {
    {"WhiteSpace", scpiLex_WhiteSpace, rWhite, " \tA\n", false},
    {"NewLine", scpiLex_NewLine, rNewLine, "\r\n A;", false},
    {"Comma", scpiLex_Comma, refComma, ",; A", false},
    {"Semicolon", scpiLex_Semicolon, refSemi, ",; A", false},
    {"Colon", lexColon, refColon, ":; A", false},
    {"SpecificCharacter", lexSpecific, refSpecific, "@! A", false},
    {"CharacterProgramData", scpiLex_CharacterProgramData, rMnemonic, "Az0_ :?", false},
    {"ProgramHeader", scpiLex_ProgramHeader, rHeader, "Az0_:*? ;", true},
    {"DecimalNumericProgramData", scpiLex_DecimalNumericProgramData, rDecimal, "09+-.Ee \tx", false},
    {"NondecimalNumericData", scpiLex_NondecimalNumericData, rNondec, "#HhQqBb018Fg ", false},
    {"StringProgramData", scpiLex_StringProgramData, rString, "\"'a\n\x80\0", false},
    {"ArbitraryBlockProgramData", scpiLex_ArbitraryBlockProgramData, rBlock, "#0129a\n", false},
    {"ProgramExpression", scpiLex_ProgramExpression, rExpr, "()a ;\"#\x7f", false},
    {"parseProgramData", scpiParser_parseProgramData, refPD, "#H1a \"(),.-E2\n", false},
};
static const int kNRecs = sizeof kRecs / sizeof kRecs[0];
static size_t alphaLen(const Rec &rc) { return strcmp(rc.name, "StringProgramData") == 0 ? 6 : strlen(rc.alphabet); }

static std::string checkOne(int ri, const S &str, bool *nt = nullptr) {
    const Rec &rc = kRecs[ri];
    RefTok ref = rc.ref(str);
    if (nt) *nt = (ref.ret > 0 && (size_t) ref.ret < str.size()) || (ref.ret == 0 && str.size() >= 2);
    static const char *tempt = "5e5\"')A:1#9";
    for (int variant = 0; variant < 3; variant++) {
        // 0: exact-size buffer at offset 0; 1: exact-size at offset 3; 2: followed by tempting continuation bytes beyond len
        size_t off = variant == 1 ? 3 : 0, extra = variant == 2 ? strlen(tempt) : 0;
        XBuf b(off + str.size() + extra, '~');
        if (!str.empty()) memcpy(b.p + off, str.data(), str.size());
        if (extra) memcpy(b.p + off + str.size(), tempt, extra);
        lex_state_t st; st.buffer = st.pos = b.p + off; st.len = (int) str.size();
        scpi_token_t tk; tk.type = SCPI_TOKEN_INVALID; tk.len = 12345; tk.ptr = (char *) 0x10;
        int ret = rc.fn(&st, &tk);
        std::string w = fmt(" [%s on '", rc.name) + vis(str) + fmt("' variant %d]", variant);
        long moved = st.pos - (b.p + off);
        if (moved < 0 || moved > (long) str.size()) return fmt("cursor moved to %ld, outside 0..%zu", moved, str.size()) + w;
        int expRet = rc.retIsTokLen ? ref.tokLen : ref.ret;
        if (strcmp(rc.name, "SuffixProgramData") != 0) {
            if (ret != expRet) return fmt("returned %d, reference %d", ret, expRet) + w;
            if ((int) tk.type != ref.type) return fmt("token type %d, reference %d", (int) tk.type, ref.type) + w;
            if (moved != ref.consumed) return fmt("cursor advanced by %ld, reference %d", moved, ref.consumed) + w;
            if (tk.len != ref.tokLen) return fmt("token length %d, reference %d", tk.len, ref.tokLen) + w;
            if (ref.type != SCPI_TOKEN_UNKNOWN && ref.ptrChecked && tk.ptr - (b.p + off) != ref.tokOff) return fmt("token starts at %ld, reference %d", (long) (tk.ptr - (b.p + off)), ref.tokOff) + w;
        }
    }
    return "";
}
// suffix: one-sided (documented relaxed syntax) + consistency
static std::string checkSuffix(const S &str) {
    XBuf b(str.size(), '~'); if (!str.empty()) memcpy(b.p, str.data(), str.size());
    lex_state_t st; st.buffer = st.pos = b.p; st.len = (int) str.size();
    scpi_token_t tk; tk.type = SCPI_TOKEN_INVALID; tk.len = 12345; tk.ptr = (char *) 0x10;
    int ret = scpiLex_SuffixProgramData(&st, &tk);
    std::string w = " [SuffixProgramData on '" + vis(str) + "']";
    long moved = st.pos - b.p;
    if (moved < 0 || moved > (long) str.size()) return "cursor outside the input" + w;
    if (ret != tk.len || moved != ret) return fmt("returned %d, token length %d, cursor advanced %ld: inconsistent", ret, tk.len, moved) + w;
    if ((ret > 0) != (tk.type == SCPI_TOKEN_SUFFIX_PROGRAM_DATA) || (ret == 0 && tk.type != SCPI_TOKEN_UNKNOWN)) return "type does not agree with what was consumed" + w;
    if (ret > 0 && tk.ptr != b.p) return "token does not start at the cursor" + w;
    size_t strict = strictSuffixLen(str, 0);
    if ((size_t) ret < strict) return fmt("accepted %d characters, the strict 488.2 suffix syntax allows %zu", ret, strict) + w;
    return "";
}

// ---- unit level: ws* header (ws+ data (, data)*)? (; | NL | end)
struct RefUnit { bool wellFormed = false; int len = 0; int nparams = 0; int term = SCPI_MESSAGE_TERMINATION_NONE; int dataOff = 0, dataLen = 0; int hdrOff = 0, hdrLen = 0; };
static RefUnit rUnit(const S &s, bool *skip) {
    RefUnit u; size_t i = 0; *skip = false;
    while (i < s.size() && isWs(s[i])) i++;
    RefTok h = rHeader(s.substr(i));
    bool complete = h.type == SCPI_TOKEN_COMMON_PROGRAM_HEADER || h.type == SCPI_TOKEN_COMMON_QUERY_PROGRAM_HEADER || h.type == SCPI_TOKEN_COMPOUND_PROGRAM_HEADER || h.type == SCPI_TOKEN_COMPOUND_QUERY_PROGRAM_HEADER;
    if (!complete) return u;
    u.hdrOff = (int) i; u.hdrLen = h.tokLen; i += (size_t) h.tokLen;
    size_t wsn = 0; while (i + wsn < s.size() && isWs(s[i + wsn])) wsn++;
    size_t p = i + wsn;
    if (wsn > 0) {
        // parameter list
        size_t q = p; int n = 0;
        while (true) {
            bool sw = false;
            RefTok d = rProgramData(s.substr(q), &sw);
            if (sw) { *skip = true; return u; }          // incomplete block swallows the rest: covered at the recogniser level
            if (d.type == SCPI_TOKEN_UNKNOWN) {
                if (n == 0 && q == p) break;             // header followed by white space only
                return u;                                // empty item after a comma
            }
            n++; q += (size_t) d.ret;
            if (q < s.size() && s[q] == ',') { q++; continue; }
            break;
        }
        u.nparams = n; u.dataOff = (int) p; u.dataLen = (int) (q - p); p = q;
    }
    RefTok nl = rNewLine(s.substr(p));
    if (nl.ret) { u.term = SCPI_MESSAGE_TERMINATION_NL; p += (size_t) nl.ret; }
    else if (p < s.size() && s[p] == ';') { u.term = SCPI_MESSAGE_TERMINATION_SEMICOLON; p++; }
    else if (p < s.size()) return u;
    u.wellFormed = true; u.len = (int) p;
    return u;
}
static std::string checkUnit(const S &str, bool *nt = nullptr) {
    bool skip = false;
    RefUnit ref = rUnit(str, &skip);
    if (skip) return "";
    XBuf b(str.size(), '~'); if (!str.empty()) memcpy(b.p, str.data(), str.size());
    scpi_parser_state_t ps; memset(&ps, 0x5a, sizeof ps);
    int ret = scpiParser_detectProgramMessageUnit(&ps, b.p, (int) str.size());
    std::string w = " [detectProgramMessageUnit on '" + vis(str) + "']";
    if (ret < 0 || ret > (int) str.size()) return fmt("returned %d, outside 0..%zu", ret, str.size()) + w;
    bool complete = ps.programHeader.type == SCPI_TOKEN_COMMON_PROGRAM_HEADER || ps.programHeader.type == SCPI_TOKEN_COMMON_QUERY_PROGRAM_HEADER || ps.programHeader.type == SCPI_TOKEN_COMPOUND_PROGRAM_HEADER || ps.programHeader.type == SCPI_TOKEN_COMPOUND_QUERY_PROGRAM_HEADER;
    bool accepted = complete && ps.numberOfParameters >= 0;
    if (nt) *nt = str.size() >= 3;
    if (accepted != ref.wellFormed) return std::string(accepted ? "accepted" : "rejected") + " as a well-formed unit, the reference grammar says " + (ref.wellFormed ? "well formed" : "ill formed") + w;
    if (!accepted) return "";
    if (ret != ref.len) return fmt("returned length %d, reference %d", ret, ref.len) + w;
    if (ps.numberOfParameters != ref.nparams) return fmt("%d parameters, reference %d", ps.numberOfParameters, ref.nparams) + w;
    if ((int) ps.termination != ref.term) return fmt("termination %d, reference %d", (int) ps.termination, ref.term) + w;
    if (ps.programHeader.ptr - b.p != ref.hdrOff || ps.programHeader.len != ref.hdrLen) return "header extent differs" + w;
    if (ref.nparams > 0 && (ps.programData.ptr - b.p != ref.dataOff || ps.programData.len != ref.dataLen)) return fmt("data extent [%ld,+%d), reference [%d,+%d)", (long) (ps.programData.ptr - b.p), ps.programData.len, ref.dataOff, ref.dataLen) + w;
    return "";
}

static int g_curRec; static S g_curStr;
static std::string lazyCur(const void *) { return fmt("sub=tok\nrec=%d\nstr=", g_curRec) + hexEnc(g_curStr) + "\n"; }

static void runEnum(const Opt &o, Ev &ev) {
    armLazy(lazyCur, nullptr);
    int maxLen = o.quick() ? 6 : 7;
    uint64_t idx = 0, calls = 0, nts = 0;
    std::string done;
    for (int ri = -2; ri < kNRecs; ri++) {
        // ri == -1: suffix (one-sided); ri == -2: unit level over a merged alphabet
        const char *alpha = ri == -1 ? "Az0-/. ,;" : ri == -2 ? "A:*? 1,;\n\"#(" : kRecs[ri].alphabet;
        size_t na = ri >= 0 ? alphaLen(kRecs[ri]) : strlen(alpha);
        int ml = maxLen;
        while (ml > 1) { double t = 1; for (int i = 0; i < ml; i++) t *= (double) na; if (t <= (o.quick() ? 1.2e7 : 1.5e8)) break; ml--; }
        done += fmt("%s<=%d ", ri == -1 ? "Suffix" : ri == -2 ? "Unit" : kRecs[ri].name, ml);
        for (int len = 0; len <= ml; len++) {
            uint64_t total = 1; for (int i = 0; i < len; i++) total *= na;
            for (uint64_t kx = 0; kx < total; kx++) {
                if ((idx++ % (uint64_t) o.workers) != (uint64_t) o.worker) continue;
                S s; uint64_t x = kx;
                for (int i = 0; i < len; i++) { s += alpha[x % na]; x /= na; }
                g_curRec = ri; g_curStr = s;
                bool nt = false;
                std::string m = ri == -1 ? checkSuffix(s) : ri == -2 ? checkUnit(s, &nt) : checkOne(ri, s, &nt);
                calls++;
                if (nt) { nts++; if (len == 4 && ev.wantSample()) ev.sample(fmt("%s '", ri == -1 ? "Suffix" : ri == -2 ? "Unit" : kRecs[ri].name) + vis(s) + "'"); }
                if (!m.empty()) { failEnum(o, ev, "tok", fmt("rec=%d\nstr=", ri) + hexEnc(s) + "\n", m); if (ev.failures.size() >= 6) return; }
            }
        }
    }
    disarmLazy();
    ev.eval(calls); ev.ntCount(nts);
    ev.info["c13-lengths"] = done;
    ev.exhaustive["all strings over each recogniser's class alphabet up to the length listed under bounds.c13-lengths (exact-size buffers at two offsets + a buffer with tempting continuation bytes)"] = true;
}

// every byte value: all strings up to length 3 (4 in the thorough tier) over the class alphabet in which one position
// runs over all 256 byte values - the class representatives stand for classes of the *reference*; a recogniser that
// singles out a byte inside a class (0xFF read as an end marker through a signed char, a DEL, a control character)
// is only seen if that very byte is tried
static void runBytes(const Opt &o, Ev &ev) {
    armLazy(lazyCur, nullptr);
    int maxLen = o.quick() ? 3 : 4;
    uint64_t idx = 0, calls = 0, nts = 0;
    for (int ri = -2; ri < kNRecs; ri++) {
        const char *alpha = ri == -1 ? "Az0-/. ,;" : ri == -2 ? "A:*? 1,;\n\"#(" : kRecs[ri].alphabet;
        size_t na = ri >= 0 ? alphaLen(kRecs[ri]) : strlen(alpha);
        for (int len = 1; len <= maxLen; len++) {
            uint64_t total = 1; for (int i = 0; i < len - 1; i++) total *= na;
            for (int pos = 0; pos < len; pos++) for (uint64_t kx = 0; kx < total; kx++) {
                if ((idx++ % (uint64_t) o.workers) != (uint64_t) o.worker) continue;
                S s; uint64_t x = kx;
                for (int i = 0; i < len; i++) { if (i == pos) s += '?'; else { s += alpha[x % na]; x /= na; } }
                for (int b = 0; b < 256; b++) {
                    s[(size_t) pos] = (char) b;
                    g_curRec = ri; g_curStr = s;
                    bool nt = false;
                    std::string m = ri == -1 ? checkSuffix(s) : ri == -2 ? checkUnit(s, &nt) : checkOne(ri, s, &nt);
                    calls++;
                    if (nt) nts++;
                    if (!m.empty()) { failEnum(o, ev, "tok", fmt("rec=%d\nstr=", ri) + hexEnc(s) + "\n", m); if (ev.failures.size() >= 6) return; }
                }
            }
        }
    }
    disarmLazy();
    ev.eval(calls); ev.ntCount(nts);
    ev.label("all-256-bytes-at-one-position", calls);
    ev.exhaustive[fmt("every byte value 0..255 at every position of every string up to length %d over each recogniser's class alphabet", maxLen)] = true;
}

// far-out lengths: definite-length blocks whose announced length crosses every power of ten of the header and the 15/16-bit
// marks, completely present, one byte short, and with leading zeros in the length field; also as a parameter of a unit
static void runFar(const Opt &o, Ev &ev) {
    static const size_t lens[] = {9, 10, 99, 100, 999, 1000, 3275, 3276, 3277, 9999, 10000, 32759, 32760, 32767, 32768, 65535, 65536, 99999, 100000, 262144};
    uint64_t calls = 0, idx = 0;
    int blockRec = -1, pdRec = -1;
    for (int i = 0; i < kNRecs; i++) { if (!strcmp(kRecs[i].name, "ArbitraryBlockProgramData")) blockRec = i; if (!strcmp(kRecs[i].name, "parseProgramData")) pdRec = i; }
    for (size_t n : lens) for (int zeros = 0; zeros < 2; zeros++) for (int shape = 0; shape < 3; shape++) {
        if ((idx++ % (uint64_t) o.workers) != (uint64_t) o.worker) continue;
        S l = std::to_string(n); if (zeros && l.size() < 9) l = S(9 - l.size(), '0') + l;
        S payload(n, 'x'); for (size_t i = 7; i < n; i += 97) payload[i] = "\n;\"#,)"[i % 7];
        S t = "#" + std::to_string(l.size()) + l + (shape == 1 ? payload.substr(0, n - 1) : payload) + (shape == 2 ? ",7" : "");
        for (int ri : {blockRec, pdRec}) {
            g_curRec = ri; g_curStr = t.substr(0, 64);
            std::string m = checkOne(ri, t);
            calls++;
            if (!m.empty()) { failEnum(o, ev, "tok", fmt("rec=%d\nstr=", ri) + hexEnc(t) + "\n", m.substr(0, 400)); if (ev.failures.size() >= 4) return; }
        }
        if (shape != 1) {
            S u = "A " + t + (shape == 2 ? "" : ",7") + "\n";
            g_curRec = -2; g_curStr = u.substr(0, 64);
            std::string m = checkUnit(u);
            calls++;
            if (!m.empty()) { failEnum(o, ev, "tok", "rec=-2\nstr=" + hexEnc(u) + "\n", m.substr(0, 400)); if (ev.failures.size() >= 4) return; }
        }
    }
    ev.eval(calls); ev.ntCount(calls); ev.label("far-out-block-lengths", calls);
}

// long grammar-generated tokens
static std::string body(Src &s, Ev &ev) {
    int kind = (int) s.range(0, 5);
    S t; int ri = 0;
    auto digs = [&](size_t n) { S d; for (size_t i = 0; i < n; i++) d += (char) ('0' + s.range(0, 9)); return d; };
    switch (kind) {
        case 0: ri = 8; t = (s.coin() ? "-" : "") + digs(s.range(1, 25)) + (s.coin() ? "." + digs(s.range(0, 25)) : "") + (s.coin() ? S(s.range(0, 2), ' ') + "E" + S(s.range(0, 2), ' ') + (s.coin() ? "-" : "") + digs(s.range(0, 3)) : "") + (s.coin() ? " V" : ""); break;
        case 1: { ri = 11; size_t n = s.range(0, 400); S l = std::to_string(n); if (s.coin()) l = S(s.range(0, 9 - l.size()), '0') + l; t = "#" + std::to_string(l.size()) + l; size_t have = s.prob(1, 4) ? s.range(0, n) : n; for (size_t i = 0; i < have; i++) t += (char) s.range(0, 255); if (s.coin()) t += ",x"; break; }
        case 2: { ri = 10; char q = s.coin() ? '"' : '\''; t = S(1, q); size_t n = s.range(0, 300); for (size_t i = 0; i < n; i++) { char c = (char) s.range(0, s.prob(1, 30) ? 255 : 127); t += c; if (c == q) t += q; } if (!s.prob(1, 6)) t += q; t += " ,"; break; }
        case 3: { ri = 7; int n = (int) s.range(1, 6); if (s.coin()) t = ":"; for (int i = 0; i < n; i++) { t += (i ? ":" : ""); size_t l = s.range(1, 14); for (size_t k = 0; k < l; k++) t += k ? s.pickc("abcXYZ019_") : s.pickc("abcXYZ"); } if (s.coin()) t += "?"; t += s.pickc(" ;\n,"); break; }
        case 4: { ri = 12; t = "("; size_t n = s.range(0, 60); for (size_t i = 0; i < n; i++) t += (char) s.range(0x20, 0x7e); t += ")"; break; }
        default: { ri = 13; t = S(s.range(0, 3), ' ') + "#H" + S(s.range(1, 16), 'f') + S(s.range(0, 3), ' ') + ","; break; }
    }
    bool nt = false;
    std::string m = checkOne(ri, t, &nt);
    ev.eval();
    ev.label(std::string("long-") + kRecs[ri].name);
    ev.nt(hashStr(std::to_string(ri) + t));
    if (ev.wantSample()) ev.sample(fmt("long %s '", kRecs[ri].name) + vis(t.substr(0, 60)) + (t.size() > 60 ? "...'" : "'"));
    return m;
}

int main(int argc, char **argv) {
    std::vector<Sub> subs;
    auto replayTok = [](const Replay &r) { int ri = (int) r.num("rec"); S s = hexDec(r.get("str")); return ri == -1 ? checkSuffix(s) : ri == -2 ? checkUnit(s) : checkOne(ri, s); };
    subs.push_back({"tok", [](const Opt &, Ev &) {}, replayTok});
    subs.push_back({"enum", runEnum, replayTok});
    subs.push_back({"bytes", runBytes, replayTok});
    subs.push_back({"far", runFar, replayTok});
    subs.push_back({"rand", [](const Opt &o, Ev &ev) { runRandom(o, ev, "rand", 900, o.quick() ? 20000 : 200000, body); },
                    [](const Replay &r) { auto v = r.choices(); Src s(v); Ev e; return body(s, e); }});
    return mainWith(argc, argv, "C13", subs);
}
