// "World" generator for the differential checks (C08, C09) and the structured
// fuzz target (C01): a command table with diverse scripted handlers, messages
// that mostly match it, byte-level mutations.
#pragma once
#include "gen.hpp"

namespace vf {

struct World { std::vector<GenPattern> table; std::vector<Script> scripts; };

inline World genWorld(Src &s, bool unfinishedBlocks) {
    World w;
    w.table = genTable(s, 3, 8, true);
    for (size_t i = 0; i < w.table.size(); i++) {
        Script sc;
        int nr = (int) s.weighted({3, 4, 3, 1});
        bool optionalTail = false;
        for (int k = 0; k < nr; k++) {
            Reader r;
            switch (s.weighted({10, 2, 1, 1})) {
                case 0: r.kind = kScalarReaders[s.range(0, 12)]; r.n = r.kind == R_TEXT ? (int) s.range(0, 20) : 1; break;
                case 1: r.kind = s.pick(std::vector<RKind>{R_ARR_I32, R_ARR_U32, R_ARR_F64, R_ARR_I64, R_ARR_U64, R_ARR_F32}); r.n = (int) s.range(1, 4); break;
                case 2: r.kind = R_EXPR_NUM; break;
                default: r.kind = R_EXPR_CHAN; r.n = (int) s.range(0, 3); break;
            }
            if (optionalTail || s.prob(1, 4)) { r.mandatory = false; optionalTail = true; }
            sc.readers.push_back(r);
        }
        if (w.table[i].query) {
            int ni = (int) s.weighted({1, 4, 3, 1});
            for (int k = 0; k < ni; k++) sc.items.push_back(genItem(s));
            if (unfinishedBlocks && s.prob(1, 10)) { OItem d; d.kind = O_BLOCKDATA; d.s = "xyz"; sc.items.push_back(d); }   // data call without a header: refused unless block accounting leaked
            if (unfinishedBlocks && s.prob(1, 8)) { OItem h; h.kind = O_BLOCKHDR; h.u = s.range(3, 9); sc.items.push_back(h); OItem d; d.kind = O_BLOCKDATA; d.s = "ab"; sc.items.push_back(d); }   // announces more than it sends
        }
        if (s.prob(1, 10)) { OItem x; x.kind = O_ERRPUSH; x.code = -221; sc.items.insert(sc.items.begin() + (long) s.range(0, sc.items.size()), x); }
        sc.retOk = !s.prob(1, 10);
        sc.noHandler = s.prob(1, 10);          // an accept-and-ignore entry: the table holds no callback for it (the library allows that)
        sc.numbers = refNumericCount(refParsePattern(w.table[i].text));
        sc.probeSelf = true;
        w.scripts.push_back(sc);
    }
    return w;
}
inline InstCfg worldCfg(const World &w, size_t bufLen, int queueLen) {
    InstCfg k; k.bufLen = bufLen; k.queueLen = queueLen; k.heapLen = 4096;
    for (size_t i = 0; i < w.table.size(); i++) { Cmd c; c.pattern = w.table[i].text; c.script = w.scripts[i]; k.cmds.push_back(c); }
    return k;
}

struct MsgOpt { bool allowTerminatorBytes = true; bool terminate = true; int maxUnits = 6; };

// one program message (with terminator unless opt.terminate is false)
inline std::string genMessage(Src &s, const World &w, const MsgOpt &opt = MsgOpt()) {
    std::string msg, prevHeader;
    int nu = (int) s.weighted({3, 3, 2, 1, 1, 1}) + 1;
    if (nu > opt.maxUnits) nu = opt.maxUnits;
    DatumOpt dopt; dopt.allowTerminatorBytes = opt.allowTerminatorBytes; dopt.maxLen = 16;
    for (int u = 0; u < nu; u++) {
        if (u) msg += ";";
        if (s.prob(1, 14)) { msg += wsp(s, 1); continue; }       // empty unit
        size_t ei = s.range(0, w.table.size() - 1);
        const GenPattern &e = w.table[ei];
        Spelling sp = spellPattern(s, e);
        for (auto &m : sp.mnemonics) m = randCaseOf(s, m);
        std::string header;
        int mode = (int) s.weighted({7, 3, 1});
        size_t pc = prevHeader.rfind(':');
        if (mode == 1 && u > 0 && pc != std::string::npos && pc > 0 && !e.common && sp.mnemonics.size() > 1) header = joinHeader(sp.mnemonics, sp.mnemonics.size() - 1, false, sp.query);
        else if (mode == 2) header = std::string(s.coin() ? ":" : "") + "NOSUCH" + (s.coin() ? ":CMD" : "") + (s.coin() ? "?" : "");
        else header = joinHeader(sp.mnemonics, 0, !e.common && s.prob(1, 3), sp.query);
        prevHeader = header;
        msg += wsp(s, 1) + header;
        // parameters: mostly what the entry's readers accept
        std::vector<std::string> items;
        for (auto &r : w.scripts[ei].readers) {
            if (!r.mandatory && s.prob(1, 3)) break;
            bool arr = r.kind >= R_ARR_I32 && r.kind <= R_ARR_F64;
            int n = arr ? (int) s.range(1, (uint64_t) r.n) : 1;
            for (int j = 0; j < n; j++) {
                Reader rr = r; if (arr) rr.kind = (r.kind == R_ARR_F32 || r.kind == R_ARR_F64) ? R_F64 : (r.kind == R_ARR_U32 || r.kind == R_ARR_U64) ? R_U32 : R_I32;
                int kind = (r.kind == R_EXPR_NUM || r.kind == R_EXPR_CHAN) ? D_EXPR : compatibleKind(s, rr);
                if (s.prob(1, 12)) kind = (int) s.range(0, D_KINDS - 1);
                items.push_back(genDatum(s, kind, dopt).text);
            }
        }
        if (s.prob(1, 16)) {
            // long decimal literal (up to ~75 significant characters) with the white space 488.2 allows around the exponent:
            // exercises every fixed-size conversion buffer at and around its limit
            // total number of significant (non-blank) characters: biased to the neighbourhood of power-of-two buffer sizes
            static const int around[] = {31, 32, 33, 63, 64, 65, 64, 127, 128, 129};
            size_t T = s.prob(1, 2) ? (size_t) around[s.range(0, 9)] : s.range(20, 140);
            std::string tail = std::string(s.coin() ? "E" : "e") + "|" + (s.coin() ? "-" : "") + std::to_string(s.range(0, 99));   // '|' marks where blanks go
            std::string suffix = s.prob(1, 4) ? "V" : "";
            std::string num = s.coin() ? "-" : "";
            size_t fixed = num.size() + tail.size() - 1 + suffix.size();
            size_t nd = T > fixed + 1 ? T - fixed : 1;
            bool dot = s.prob(1, 3) && nd > 2;
            if (dot) nd--;
            size_t dotAt = dot ? s.range(1, nd - 1) : nd + 1;
            for (size_t i = 0; i < nd; i++) { if (i == dotAt) num += '.'; num += (char) ('0' + s.range(i ? 0 : 1, 9)); }
            std::string w1 = wsp(s, 2), w2 = wsp(s, 2);
            if (w1.empty() && w2.empty()) w1 = " ";
            num += w1 + tail.substr(0, 1) + w2 + tail.substr(2) + (suffix.empty() ? "" : " " + suffix);
            if (items.empty()) items.push_back(num); else items[s.range(0, items.size() - 1)] = num;
        }
        if (s.prob(1, 12)) items.push_back(genDatum(s, (int) s.range(0, D_KINDS - 1), dopt).text);     // surplus
        if (s.prob(1, 20) && !items.empty()) items.pop_back();                                          // missing
        if (s.prob(1, 25)) items.push_back(genMalformed(s));
        for (size_t i = 0; i < items.size(); i++) msg += (i ? "," : " ") + wsp(s, 1) + items[i] + wsp(s, 1);
        if (items.empty() && s.prob(1, 5)) msg += wsp(s, 2) + " ";                                    // header followed by white space only
    }
    if (opt.terminate) msg += s.pick(std::vector<std::string>{"\n", "\r\n", "\r", "\n"});
    return msg;
}

inline void mutateBytes(Src &s, std::string &t) {
    int n = (int) s.range(1, 3);
    for (int i = 0; i < n && !t.empty(); i++) {
        size_t p = s.range(0, t.size() - 1);
        switch (s.range(0, 5)) {
            case 0: t[p] = (char) (t[p] ^ (1 << s.range(0, 7))); break;
            case 1: t.erase(p, 1); break;
            case 2: t.insert(p, 1, t[p]); break;
            case 3: t.insert(p, 1, s.pickc(";,:\"'#()\n\r *?@!")); break;
            case 4: { size_t q = s.range(0, t.size() - 1); size_t l = s.range(1, 6); t.insert(p, t.substr(q, l)); break; }
            default: t[p] = (char) s.range(0, 255); break;
        }
    }
}

// Listed finding C08-F1: CR/LF between an opening quote and a later quote of the same kind.  Every quote character
// is a possible string start for the lexer, and depending on where a chunk ends any later quote of that kind (even one
// half of a doubled pair) can momentarily close the string.  So for every quote at p: let e be the last quote of the
// same kind reachable from p over 7-bit characters; every CR/LF in (p, e) is replaced by a blank.  Returns the number
// of bytes replaced.  (Over-approximation: it only costs coverage.)
inline size_t neutraliseQuotedTerminators(std::string &t) {
    size_t replaced = 0;
    for (size_t p = 0; p < t.size(); p++) {
        char q = t[p];
        if (q != '"' && q != '\'') continue;
        size_t e = p;
        for (size_t i = p + 1; i < t.size() && (unsigned char) t[i] <= 0x7f; i++) if (t[i] == q) e = i;
        for (size_t k = p + 1; k < e; k++) if (t[k] == '\r' || t[k] == '\n') { t[k] = ' '; replaced++; }
    }
    return replaced;
}

} // namespace vf
