// Shared infrastructure of every check binary: choice source, evidence
// collector, rapidcheck runner, replay files, result JSON.
//
// A "case" of a random sub-check is a sequence of 32-bit choices produced by
// rapidcheck (so rapidcheck owns all randomness, shrinks the sequence and the
// shrunk sequence is the replay file).  A deterministic decoder turns the
// choices into the structured case; when the sequence is exhausted every
// further choice is 0, i.e. "the simplest alternative".
#pragma once
#include <cstdint>
#include <cstdio>
#include <cstdlib>
#include <cstring>
#include <string>
#include <vector>
#include <map>
#include <unordered_set>
#include <functional>
#include <sstream>
#include <algorithm>
#include <chrono>
#include <unistd.h>
#include "xbuf.hpp"

namespace vf {

// ---------------------------------------------------------------- utilities
inline uint64_t splitmix(uint64_t x) {
    x += 0x9e3779b97f4a7c15ULL;
    x = (x ^ (x >> 30)) * 0xbf58476d1ce4e5b9ULL;
    x = (x ^ (x >> 27)) * 0x94d049bb133111ebULL;
    return x ^ (x >> 31);
}
inline uint64_t hashBytes(const void *p, size_t n, uint64_t h = 1469598103934665603ULL) {
    const unsigned char *c = (const unsigned char *) p;
    for (size_t i = 0; i < n; i++) { h ^= c[i]; h *= 1099511628211ULL; }
    return splitmix(h);
}
inline uint64_t hashStr(const std::string &s, uint64_t h = 1469598103934665603ULL) { return hashBytes(s.data(), s.size(), h); }

inline std::string hexEnc(const std::string &s) {
    static const char *d = "0123456789abcdef";
    std::string o;
    for (unsigned char c : s) { o += d[c >> 4]; o += d[c & 15]; }
    return o;
}
inline std::string hexDec(const std::string &s) {
    std::string o;
    auto v = [](char c) { return c <= '9' ? c - '0' : (c | 32) - 'a' + 10; };
    for (size_t i = 0; i + 1 < s.size(); i += 2) o += (char) (v(s[i]) * 16 + v(s[i + 1]));
    return o;
}
// printable rendering of arbitrary bytes for samples / messages
inline std::string vis(const std::string &s) {
    std::string o;
    char b[8];
    for (unsigned char c : s) {
        if (c == '\\') o += "\\\\";
        else if (c == '\n') o += "\\n";
        else if (c == '\r') o += "\\r";
        else if (c == '\t') o += "\\t";
        else if (c >= 0x20 && c < 0x7f) o += (char) c;
        else { snprintf(b, sizeof b, "\\x%02x", c); o += b; }
    }
    return o;
}
inline std::string jsonEsc(const std::string &s) {
    std::string o;
    char b[8];
    for (unsigned char c : s) {
        if (c == '"') o += "\\\"";
        else if (c == '\\') o += "\\\\";
        else if (c == '\n') o += "\\n";
        else if (c == '\r') o += "\\r";
        else if (c == '\t') o += "\\t";
        else if (c < 0x20 || c >= 0x7f) { snprintf(b, sizeof b, "\\u%04x", c); o += b; }
        else o += (char) c;
    }
    return o;
}
template <class... A> std::string fmt(const char *f, A... a) {
    char b[4096];
    snprintf(b, sizeof b, f, a...);
    return b;
}

// ------------------------------------------------------------ choice source
struct Src {
    const uint32_t *d;
    size_t n, i = 0;
    Src(const std::vector<uint32_t> &v) : d(v.data()), n(v.size()) {}
    Src(const uint32_t *p, size_t k) : d(p), n(k) {}
    uint32_t next() { return i < n ? d[i++] : (i++, 0u); }
    bool exhausted() const { return i >= n; }
    // inclusive range, lo is the "simplest" value
    uint64_t range(uint64_t lo, uint64_t hi) {
        if (hi <= lo) return lo;
        uint64_t span = hi - lo + 1;
        if (span == 0 || span > 0xffffffffULL) {
            uint64_t v = ((uint64_t) next() << 32) | next();
            return span == 0 ? v : lo + v % span;
        }
        return lo + next() % span;
    }
    int irange(int lo, int hi) { return (int) ((int64_t) lo + (int64_t) range(0, (uint64_t) ((int64_t) hi - lo))); }
    bool coin() { return next() & 1; }
    // true with probability num/den; the simplest value (0) is "false"
    bool prob(unsigned num, unsigned den) { return (next() % den) >= den - num; }
    uint64_t u64() { uint64_t a = next(); return (a << 32) | next(); }
    template <class T> const T &pick(const std::vector<T> &v) { return v[range(0, v.size() - 1)]; }
    char pickc(const char *set) { return set[range(0, strlen(set) - 1)]; }
    // weighted choice: returns index; index 0 is the simplest
    size_t weighted(std::initializer_list<unsigned> w) {
        unsigned tot = 0;
        for (unsigned x : w) tot += x;
        unsigned r = next() % tot;
        size_t k = 0;
        for (unsigned x : w) { if (r < x) return k; r -= x; k++; }
        return 0;
    }
};

// ----------------------------------------------------------------- evidence
struct Failure {
    std::string sub, replay, message;
};

struct Ev {
    uint64_t evaluations = 0;
    std::unordered_set<uint64_t> nontrivial;       // hashes of distinct non-trivial cases
    uint64_t ntEnum = 0;                           // non-trivial cases of enumerations (distinct by construction)
    uint64_t nontrivialCap = 4000000;              // memory guard; saturation is reported
    bool saturated = false;
    std::map<std::string, uint64_t> labels;
    std::map<std::string, std::string> info;       // bounds etc. (free text values)
    std::map<std::string, bool> exhaustive;
    std::map<std::string, uint64_t> excluded;      // steered away because of a listed finding
    std::vector<std::string> samples;
    uint64_t samplesSeen = 0;
    std::vector<Failure> failures;
    bool frozen = false;                           // set while rapidcheck shrinks: stop counting

    void eval(uint64_t k = 1) { vfTick(); if (!frozen) evaluations += k; }
    void label(const std::string &l, uint64_t k = 1) { if (!frozen) labels[l] += k; }
    void nt(uint64_t h) {
        if (frozen) return;
        if (nontrivial.size() < nontrivialCap) nontrivial.insert(h); else saturated = true;
    }
    void ntCount(uint64_t k = 1) { vfTick(); if (!frozen) ntEnum += k; }
    // keep the 1st..3rd and then exponentially rarer samples, at most 12
    bool wantSample() {
        if (frozen) return false;
        samplesSeen++;
        if (samples.size() >= 12) return false;
        return samplesSeen <= 3 || (samplesSeen & (samplesSeen - 1)) == 0;
    }
    void sample(const std::string &s) { samples.push_back(s); }
};

// ------------------------------------------------------------------ options
struct Opt {
    std::string tier = "quick";
    uint64_t seed = 1;
    int worker = 0, workers = 1;
    std::string out, replayDir = ".", replayFile, hashesOut, only;
    std::string prop = "C00";
    bool quick() const { return tier != "thorough"; }
};

struct Replay {                                    // parsed key=value replay file
    std::map<std::string, std::string> kv;
    std::string get(const std::string &k, const std::string &d = "") const { auto i = kv.find(k); return i == kv.end() ? d : i->second; }
    long long num(const std::string &k, long long d = 0) const { auto i = kv.find(k); return i == kv.end() ? d : atoll(i->second.c_str()); }
    std::vector<uint32_t> choices() const {
        std::vector<uint32_t> v;
        std::string s = get("choices");
        const char *p = s.c_str();
        while (*p) { char *e; unsigned long x = strtoul(p, &e, 10); if (e == p) break; v.push_back((uint32_t) x); p = e; while (*p == ',' || *p == ' ') p++; }
        return v;
    }
};

// A sub-check: name, a runner, and a replayer that returns "" when the case passes.
struct Sub {
    std::string name;
    std::function<void(const Opt &, Ev &)> run;
    std::function<std::string(const Replay &)> replay;
};

// ----------------------------------------------------- crash-time replay dump
// Sanitizer reports abort the process: the case being executed is kept in a
// static buffer and written out by the sanitizer death callback.
extern "C" void __sanitizer_set_death_callback(void (*)(void)) __attribute__((weak));
struct CurCase { char path[512]; char text[1 << 16]; size_t len; bool armed; std::string (*lazy)(const void *); const void *lazyArg; };
inline CurCase &curCase() { static CurCase c; return c; }
inline void deathCb() {
    CurCase &c = curCase();
    if (!c.path[0]) return;
    if (!c.armed && c.lazy) {      // enumerations describe the running case lazily (cheap in the hot loop)
        std::string t = c.lazy(c.lazyArg);
        c.len = std::min(t.size(), sizeof c.text);
        memcpy(c.text, t.data(), c.len);
        c.armed = true;
    }
    if (!c.armed) return;
    FILE *f = fopen(c.path, "w");
    if (f) { fwrite(c.text, 1, c.len, f); fclose(f); }
    // unbuffered marker for the driver
    const char *m = "CRASH-REPLAY ";
    (void) !write(1, m, strlen(m)); (void) !write(1, c.path, strlen(c.path)); (void) !write(1, "\n", 1);
}
inline void armCase(const std::string &text) {
    vfTick();
    CurCase &c = curCase();
    c.len = std::min(text.size(), sizeof c.text);
    memcpy(c.text, text.data(), c.len);
    c.armed = true;
}
inline void disarmCase() { curCase().armed = false; }
// fn(arg) must return the complete replay text ("sub=...\n...") of the case currently running
inline void armLazy(std::string (*fn)(const void *), const void *arg) { curCase().lazy = fn; curCase().lazyArg = arg; curCase().armed = false; }
inline void disarmLazy() { curCase().lazy = nullptr; }

inline std::string choicesText(const std::string &sub, const std::vector<uint32_t> &v, const std::string &extra = "") {
    std::string s = "sub=" + sub + "\n" + extra + "choices=";
    char b[16];
    for (size_t i = 0; i < v.size(); i++) { snprintf(b, sizeof b, i ? ",%u" : "%u", v[i]); s += b; }
    s += "\n";
    return s;
}

inline std::string writeReplay(const Opt &o, const std::string &sub, const std::string &text) {
    char name[64];
    snprintf(name, sizeof name, "%016llx", (unsigned long long) hashStr(text));
    std::string path = o.replayDir + "/" + o.prop + "-" + sub + "-" + name + ".case";
    FILE *f = fopen(path.c_str(), "w");
    if (f) { fwrite(text.data(), 1, text.size(), f); fclose(f); }
    return path;
}

// failure in an enumerated (non-rapidcheck) sub-check
inline void failEnum(const Opt &o, Ev &ev, const std::string &sub, const std::string &replayText, const std::string &msg) {
    std::string path = writeReplay(o, sub, "sub=" + sub + "\n" + replayText);
    ev.failures.push_back({sub, path, msg});
}

// listed findings that still reproduce are passed by the driver in VERIF_KNOWN (comma separated ids);
// generators then steer away from that class by construction and count what they excluded
inline bool knownActive(const char *id) {
    const char *e = getenv("VERIF_KNOWN");
    if (!e) return false;
    std::string s = std::string(",") + e + ",";
    return s.find(std::string(",") + id + ",") != std::string::npos;
}

// ------------------------------------------------------------ rapidcheck run
// body(src, ev) returns "" on success, otherwise a failure message.
extern long g_shrinkBudget;   // property executions allowed for shrinking one failure (set before runRandom for heavy cases)
void runRandom(const Opt &o, Ev &ev, const std::string &sub, int maxChoices, int nCases,
               const std::function<std::string(Src &, Ev &)> &body);

int mainWith(int argc, char **argv, const char *prop, std::vector<Sub> subs);

} // namespace vf
