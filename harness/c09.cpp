// C09 - messages and units are isolated: nothing but status and errors carries over.
// Oracle: differential - the trace of message B after messages A1..Ak on one context
// must equal the trace of B on a fresh context.
#include "world.hpp"
using namespace vf;

struct ICase { World w; std::vector<std::string> A; bool lastAFlushed = false; std::string B; };

static ICase decode(Src &s) {
    ICase c;
    c.w = genWorld(s, true);
    int k = (int) s.weighted({5, 2, 1, 1}) + 1;
    MsgOpt mo;
    for (int i = 0; i < k; i++) {
        bool last = i + 1 == k;
        mo.terminate = !(last && s.prob(1, 6));
        std::string m = genMessage(s, c.w, mo);
        if (s.prob(1, 5)) mutateBytes(s, m);
        if (!mo.terminate) c.lastAFlushed = true;
        c.A.push_back(m);
    }
    mo.terminate = true;
    c.B = genMessage(s, c.w, mo);
    return c;
}
static std::string describe(const ICase &c) {
    std::string t = "table [";
    for (size_t i = 0; i < c.w.table.size(); i++) t += fmt("%zu:'", i + 1) + c.w.table[i].text + "' ";
    t += "] A:";
    for (auto &a : c.A) t += " '" + vis(a) + "'";
    if (c.lastAFlushed) t += "+flush";
    return t + " B: '" + vis(c.B) + "'";
}

static std::vector<std::string> traceOfB(const ICase &c, bool withA, std::string *inv, bool *aInteresting) {
    size_t need = c.B.size();
    for (auto &a : c.A) need = std::max(need, a.size());
    Inst I(worldCfg(c.w, need + 8, 128));
    if (withA) {
        for (size_t i = 0; i < c.A.size(); i++) {
            I.input(c.A[i]);
            if (i + 1 == c.A.size() && c.lastAFlushed) I.input("", 0);
        }
        if (aInteresting) {
            bool err = !I.errors.empty(), compound = false, emitted = !I.out.empty();
            for (auto &l : I.trace) if (l.compare(0, 2, "H:") == 0 && l.find(':', l.find(':', 2) + 1) != std::string::npos && l.find(':', l.find(':', 2) + 2) != std::string::npos) compound = true;
            *aInteresting = err || compound || emitted || I.ctx.arbitrary_remaining != 0;
        }
        // A must be complete before B starts: whatever a mutated A left pending (terminator destroyed, block that
        // swallowed it) is executed by a zero-length call, as the property's "end (by flush) in an incomplete unit" says
        if (I.ctx.buffer.position != 0) I.input("", 0);
        if (I.ctx.buffer.position != 0 && inv && inv->empty()) *inv = fmt("%zu bytes still pending in the input buffer after a zero-length (flush) call", I.ctx.buffer.position);
    }
    size_t start = I.trace.size();
    I.input(c.B);
    if (inv && inv->empty()) *inv = I.invariant;
    std::vector<std::string> t;
    for (size_t i = start; i < I.trace.size(); i++) if (I.trace[i].compare(0, 2, "C:") != 0) t.push_back(I.trace[i]);
    return t;
}

static std::string runCase(const ICase &c, bool *nt = nullptr) {
    std::string inv; bool aInt = false;
    std::vector<std::string> after = traceOfB(c, true, &inv, &aInt);
    if (!inv.empty()) return inv + ": " + describe(c);
    std::vector<std::string> fresh = traceOfB(c, false, &inv, nullptr);
    if (!inv.empty()) return inv + ": " + describe(c);
    if (nt) {
        bool bRel = c.B.find('?') != std::string::npos || c.B.find(';') != std::string::npos;
        *nt = aInt && bRel;
    }
    if (after != fresh) {
        size_t i = 0; while (i < after.size() && i < fresh.size() && after[i] == fresh[i]) i++;
        return fmt("trace of B differs at event #%zu: after A '%s', on a fresh context '%s': ", i, i < after.size() ? after[i].c_str() : "(end)", i < fresh.size() ? fresh[i].c_str() : "(end)") + describe(c);
    }
    return "";
}

static std::string body(Src &s, Ev &ev) {
    ICase c = decode(s);
    bool nt = false;
    std::string m = runCase(c, &nt);
    ev.eval();
    ev.label(fmt("A-messages-%zu", c.A.size()));
    if (c.lastAFlushed) ev.label("A-ends-incomplete-then-flush");
    if (nt) { ev.nt(hashStr(describe(c))); if (ev.wantSample()) ev.sample(describe(c)); }
    return m;
}

int main(int argc, char **argv) {
    std::vector<Sub> subs;
    subs.push_back({"rand", [](const Opt &o, Ev &ev) { g_shrinkBudget = 8000; runRandom(o, ev, "rand", 1200, o.quick() ? 25000 : 250000, body); },
                    [](const Replay &r) { auto v = r.choices(); Src s(v); Ev e; return body(s, e); }});
    return mainWith(argc, argv, "C09", subs);
}
