// C09 - messages and units are isolated: nothing but status and errors carries over.
// Oracle: differential - the trace of message B after messages A1..Ak on one context
// must equal the trace of B on a fresh context.
#include "world.hpp"
using namespace vf;

struct ICase { World w; std::vector<std::string> A; bool lastAFlushed = false; std::string B; bool decoy = false; };

static ICase decode(Src &s) {
    ICase c;
    c.w = genWorld(s, true);
    int k = (int) s.weighted({5, 2, 1, 1}) + 1;
    MsgOpt mo;
    for (int i = 0; i < k; i++) {
        bool last = i + 1 == k;
        mo.terminate = !(last && s.prob(1, 6));
        std::string m = genMessage(s, c.w, mo);
        if (s.prob(1, 5)) mutateBytes(s, m);
        if (!mo.terminate) c.lastAFlushed = true;
        c.A.push_back(m);
    }
    mo.terminate = true;
    c.B = genMessage(s, c.w, mo);
    c.decoy = s.prob(1, 4);      // a second instrument is fed the same bytes first (fixture.hpp)
    return c;
}
static std::string describe(const ICase &c) {
    std::string t = "table [";
    for (size_t i = 0; i < c.w.table.size(); i++) t += fmt("%zu:'", i + 1) + c.w.table[i].text + "' ";
    t += "] A:";
    for (auto &a : c.A) t += " '" + vis(a) + "'";
    if (c.lastAFlushed) t += "+flush";
    return t + " B: '" + vis(c.B) + "'";
}

static std::vector<std::string> traceOfB(const ICase &c, bool withA, std::string *inv, bool *aInteresting) {
    size_t need = c.B.size();
    for (auto &a : c.A) need = std::max(need, a.size());
    InstCfg k9 = worldCfg(c.w, need + 8, 128); k9.decoy = c.decoy;
    Inst I(k9);
    if (withA) {
        for (size_t i = 0; i < c.A.size(); i++) {
            I.input(c.A[i]);
            if (i + 1 == c.A.size() && c.lastAFlushed) I.input("", 0);
        }
        if (aInteresting) {
            bool err = !I.errors.empty(), compound = false, emitted = !I.out.empty();
            for (auto &l : I.trace) if (l.compare(0, 2, "H:") == 0 && l.find(':', l.find(':', 2) + 1) != std::string::npos && l.find(':', l.find(':', 2) + 2) != std::string::npos) compound = true;
            *aInteresting = err || compound || emitted || I.ctx.arbitrary_remaining != 0;
        }
        // A must be complete before B starts: whatever a mutated A left pending (terminator destroyed, block that
        // swallowed it) is executed by a zero-length call, as the property's "end (by flush) in an incomplete unit" says
        if (I.ctx.buffer.position != 0) I.input("", 0);
        if (I.ctx.buffer.position != 0 && inv && inv->empty()) *inv = fmt("%zu bytes still pending in the input buffer after a zero-length (flush) call", I.ctx.buffer.position);
    }
    size_t start = I.trace.size();
    I.input(c.B);
    // the error queue is a legitimate channel between messages: a case in which it overflowed is outside the comparison
    for (auto &l : I.trace) if (l == "E:-350") { if (inv && inv->empty()) *inv = "SKIP-queue-overflow"; break; }
    if (inv && inv->empty()) *inv = I.invariant;
    std::vector<std::string> t;
    for (size_t i = start; i < I.trace.size(); i++) if (I.trace[i].compare(0, 2, "C:") != 0) t.push_back(I.trace[i]);
    return t;
}

static std::string runCase(const ICase &c, bool *nt = nullptr) {
    std::string inv; bool aInt = false;
    std::vector<std::string> after = traceOfB(c, true, &inv, &aInt);
    if (inv == "SKIP-queue-overflow") { if (nt) *nt = false; return ""; }
    if (!inv.empty()) return inv + ": " + describe(c);
    std::vector<std::string> fresh = traceOfB(c, false, &inv, nullptr);
    if (!inv.empty()) return inv + ": " + describe(c);
    if (nt) {
        bool bRel = c.B.find('?') != std::string::npos || c.B.find(';') != std::string::npos;
        *nt = aInt && bRel;
    }
    if (after != fresh) {
        size_t i = 0; while (i < after.size() && i < fresh.size() && after[i] == fresh[i]) i++;
        return fmt("trace of B differs at event #%zu: after A '%s', on a fresh context '%s': ", i, i < after.size() ? after[i].c_str() : "(end)", i < fresh.size() ? fresh[i].c_str() : "(end)") + describe(c);
    }
    return "";
}

static std::string body(Src &s, Ev &ev) {
    ICase c = decode(s);
    bool nt = false;
    std::string m = runCase(c, &nt);
    ev.eval();
    ev.label(fmt("A-messages-%zu", c.A.size()));
    if (c.lastAFlushed) ev.label("A-ends-incomplete-then-flush");
    if (nt) { ev.nt(hashStr(describe(c))); if (ev.wantSample()) ev.sample(describe(c)); }
    return m;
}

// ---- unit isolation inside one message: the handler events of unit U2 in "U1;:U2" equal those of ":U2" alone
static std::vector<std::string> eventsOf(const World &w, const std::string &msg, std::string *inv) {
    Inst I(worldCfg(w, msg.size() + 8, 128));
    I.input(msg);
    if (inv && inv->empty()) *inv = I.invariant;
    std::vector<std::string> ev;
    for (auto &l : I.trace) if (l[0] == 'H' || l[0] == 'N' || l[0] == 'I' || l[0] == 'V' || l[0] == 'E') ev.push_back(l);
    return ev;
}
static std::string bodyUnits(Src &s, Ev &ev) {
    World w = genWorld(s, true);
    MsgOpt mo; mo.terminate = false; mo.maxUnits = 1;
    std::string u1 = genMessage(s, w, mo), u2 = genMessage(s, w, mo);
    if (s.prob(1, 6)) mutateBytes(s, u1);
    // keep U1 a single unit (no separator / terminator bytes) and make U2's header absolute
    for (auto &c : u1) if (c == ';' || c == '\n' || c == '\r') c = ' ';
    for (auto &c : u2) if (c == ';' || c == '\n' || c == '\r') c = ' ';
    neutraliseQuotedTerminators(u1);
    size_t h = u2.find_first_not_of(" \t");
    if (h == std::string::npos) return "";
    if (u2[h] != ':' && u2[h] != '*') u2.insert(h, ":");
    // precondition: U1 followed by ';' must be one complete unit (an unterminated quote or block would swallow the separator);
    // the unit scanner itself is used to decide that - it is not the oracle here
    {
        std::string probe = u1 + ";" + u2 + "\n";
        XBuf pb(probe.size() + 1); memcpy(pb.p, probe.c_str(), probe.size() + 1);
        scpi_parser_state_t ps; memset(&ps, 0, sizeof ps);
        int r = scpiParser_detectProgramMessageUnit(&ps, pb.p, (int) probe.size());
        if (r != (int) u1.size() + 1 || ps.termination != SCPI_MESSAGE_TERMINATION_SEMICOLON || ps.programHeader.type == SCPI_TOKEN_INVALID) { ev.label("units-skipped-U1-not-a-single-unit"); return ""; }
    }
    std::string inv;
    std::vector<std::string> e1 = eventsOf(w, u1 + "\n", &inv), e2 = eventsOf(w, u2 + "\n", &inv), both = eventsOf(w, u1 + ";" + u2 + "\n", &inv);
    ev.eval();
    if (!inv.empty()) return inv;
    std::vector<std::string> exp = e1; exp.insert(exp.end(), e2.begin(), e2.end());
    bool nt = !e1.empty() && !e2.empty();
    if (nt) { ev.nt(hashStr(u1 + "|" + u2)); if (ev.wantSample()) ev.sample("units: '" + vis(u1) + "' ; '" + vis(u2) + "'"); }
    if (both != exp) {
        size_t i = 0; while (i < both.size() && i < exp.size() && both[i] == exp[i]) i++;
        std::string t = "table ["; for (size_t k = 0; k < w.table.size(); k++) t += fmt("%zu:'", k + 1) + w.table[k].text + "' ";
        return fmt("events of '%s;%s' differ from those of the two units alone at #%zu: '%s' vs '%s' ", vis(u1).c_str(), vis(u2).c_str(), i, i < both.size() ? both[i].c_str() : "(end)", i < exp.size() ? exp[i].c_str() : "(end)") + t + "]";
    }
    return "";
}

int main(int argc, char **argv) {
    std::vector<Sub> subs;
    subs.push_back({"rand", [](const Opt &o, Ev &ev) { g_shrinkBudget = 8000; runRandom(o, ev, "rand", 1200, o.quick() ? 25000 : 250000, body); },
                    [](const Replay &r) { auto v = r.choices(); Src s(v); Ev e; return body(s, e); }});
    subs.push_back({"units", [](const Opt &o, Ev &ev) { g_shrinkBudget = 8000; runRandom(o, ev, "units", 700, o.quick() ? 15000 : 150000, bodyUnits); },
                    [](const Replay &r) { auto v = r.choices(); Src s(v); Ev e; return bodyUnits(s, e); }});
    return mainWith(argc, argv, "C09", subs);
}
