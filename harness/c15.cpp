// C15 - no formatting or copying API writes past the buffer the caller gave it.
// Oracle: exact-size heap buffer under ASan (one-past-end pointer for length 0) +
// canaries; returned length <= stated length, NUL at [r] whenever r < length, and
// the bytes written are a prefix of the full text (obtained with a 160-byte buffer).
#include "fixture.hpp"
using namespace vf;

enum Fn { F_NUMBER, F_FLOAT, F_DOUBLE, F_DTOSTRE, F_COPYTEXT, F_INT32, F_UINT32, F_INT64, F_UINT64, F_COUNT };
static const char *const kFn[] = {"SCPI_NumberToStr", "SCPI_FloatToStr", "SCPI_DoubleToStr", "SCPI_dtostre", "SCPI_ParamCopyText",
                                  "SCPI_Int32ToStr", "SCPI_UInt32ToStrBase", "SCPI_Int64ToStr", "SCPI_UInt64ToStrBase"};
struct FCase {
    int fn = 0;
    double d = 0;          // number / float / double value
    int unit = 0;          // SCPI_NumberToStr: scpi_unit_t
    int special = 0;       // SCPI_NumberToStr: 1 = special number, tag below
    int tag = 0;
    int prec = 6, flags = 0;   // dtostre
    uint64_t u = 0; int base = 10;   // integer formatters
    std::string text;      // ParamCopyText: the program data as written (with quotes)
    bool nullLen = false;  // ParamCopyText called with copy_len == NULL (refused today; if a tree accepts it, the bounds still hold)
    size_t len = 0;
};
static std::string describe(const FCase &c) {
    return fmt("%s len=%zu d=%.17g unit=%d special=%d tag=%d prec=%d flags=%d u=%llu base=%d%s text=", kFn[c.fn], c.len, c.d, c.unit, c.special, c.tag, c.prec, c.flags,
               (unsigned long long) c.u, c.base, c.nullLen ? " copy_len=NULL" : "") + vis(c.text);
}
static std::string replayOf(const FCase &c) {
    return fmt("fn=%d\nd=%s\nunit=%d\nspecial=%d\ntag=%d\nprec=%d\nflags=%d\nu=%llu\nbase=%d\ntext=%s\nlen=%zu\nnulllen=%d\n", c.fn, bitsD(c.d).c_str(), c.unit, c.special, c.tag, c.prec, c.flags,
               (unsigned long long) c.u, c.base, hexEnc(c.text).c_str(), c.len, (int) c.nullLen);
}

struct Ctx {   // a bare context: units table for NumberToStr, parameter cursor for ParamCopyText
    scpi_t ctx; scpi_interface_t ifc; char inb[16]; scpi_error_t q[4]; scpi_command_t none[1];
    int errors = 0;
    static int err(scpi_t *c, int_fast16_t) { ((Ctx *) c->user_context)->errors++; return 0; }
    Ctx() {
        memset(&ifc, 0, sizeof ifc); ifc.error = err;
        scpi_command_t end = SCPI_CMD_LIST_END; none[0] = end;
        SCPI_Init(&ctx, none, &ifc, scpi_units_def, 0, 0, 0, 0, inb, sizeof inb, q, 4);
        ctx.user_context = this;
    }
    ~Ctx() { SCPI_ErrorClear(&ctx); }
};

// runs the function into buf/len; returns the reported length (or (size_t)-1 when the call itself reports failure)
static size_t call(const FCase &c, Ctx &k, char *buf, size_t len, XBuf *textCopy) {
    switch (c.fn) {
        case F_NUMBER: {
            scpi_number_t n; memset(&n, 0, sizeof n);
            n.special = c.special != 0; n.unit = (scpi_unit_t) c.unit; n.base = (int8_t) c.base;   // the base the number was written in (every field of scpi_number_t is the caller's to set)
            if (c.special) n.content.tag = c.tag; else n.content.value = c.d;
            return SCPI_NumberToStr(&k.ctx, scpi_special_numbers_def, &n, buf, len);
        }
        case F_FLOAT: return SCPI_FloatToStr((float) c.d, buf, len);
        case F_DOUBLE: return SCPI_DoubleToStr(c.d, buf, len);
        case F_DTOSTRE: { char *r = SCPI_dtostre(c.d, buf, len, (unsigned char) c.prec, (unsigned char) c.flags); if (r != buf) return (size_t) -2; return len ? strnlen(buf, len) : 0; }
        case F_COPYTEXT: {
            k.ctx.param_list.lex_state.buffer = k.ctx.param_list.lex_state.pos = textCopy->p;
            k.ctx.param_list.lex_state.len = (int) textCopy->n;
            k.ctx.input_count = 0; k.ctx.cmd_error = FALSE;
            size_t cl = 99999;
            scpi_bool_t ok = SCPI_ParamCopyText(&k.ctx, buf, len, c.nullLen ? nullptr : &cl, TRUE);
            if (c.nullLen) { if (!ok) { SCPI_ErrorClear(&k.ctx); k.errors = 0; return (size_t) -3; } return len ? strnlen(buf, len) : 0; }   // refused, or accepted: then the text is what the buffer holds
            return ok ? cl : (size_t) -1;
        }
        case F_INT32: return SCPI_Int32ToStr((int32_t) c.u, buf, len);
        case F_UINT32: return SCPI_UInt32ToStrBase((uint32_t) c.u, buf, len, (int8_t) c.base);
        case F_INT64: return SCPI_Int64ToStr((int64_t) c.u, buf, len);
        default: return SCPI_UInt64ToStrBase(c.u, buf, len, (int8_t) c.base);
    }
}

static std::string checkOne(const FCase &c, bool *nt = nullptr) {
    Ctx k;
    XBuf text(c.text.size());
    if (!c.text.empty()) memcpy(text.p, c.text.data(), c.text.size());
    char full[160];
    memset(full, 0, sizeof full);
    size_t fl = call(c, k, full, sizeof full, &text);
    if (fl == (size_t) -3) {      // copy_len == NULL is refused: then nothing may be written for any length either
        XBuf b0(c.len, 0x7e); size_t r0 = call(c, k, b0.p, c.len, &text);
        if (!b0.ok()) return "canary after the buffer overwritten (copy_len == NULL): " + describe(c);
        if (r0 != (size_t) -3) return "copy_len == NULL accepted for one buffer length and refused for another: " + describe(c);
        return "";
    }
    if (fl == (size_t) -1 || fl >= sizeof full) return "reference call with a 160-byte buffer failed: " + describe(c);
    std::string T(full, fl);
    if (nt) *nt = T.size() + 1 >= c.len;
    XBuf b(c.len, 0x7e);
    size_t r = call(c, k, b.p, c.len, &text);
    if (!b.ok()) return "canary after the buffer overwritten: " + describe(c);
    if (r == (size_t) -1 || r == (size_t) -3) return "call failed with a short buffer: " + describe(c);
    if (r == (size_t) -2) return "SCPI_dtostre did not return the caller's buffer: " + describe(c);
    if (r > c.len) return fmt("returned length %zu exceeds the buffer length: ", r) + describe(c);
    bool nulPromised = !(c.fn == F_COPYTEXT || c.fn >= F_INT32);   // these fill the whole buffer without NUL when the text does not fit
    if (nulPromised && c.len > 0 && r >= c.len) return fmt("returned length %zu leaves no room for the NUL: ", r) + describe(c);
    if (r > T.size()) return fmt("returned length %zu is longer than the full text '%s': ", r, vis(T).c_str()) + describe(c);
    if (memcmp(b.p, T.data(), r) != 0) return "bytes written '" + vis(std::string(b.p, r)) + "' are not a prefix of the full text '" + vis(T) + "': " + describe(c);
    if (r < c.len && b.p[r] != 0) return fmt("no NUL at index %zu (buffer %zu, full text '%s'): ", r, c.len, vis(T).c_str()) + describe(c);
    if (T.size() < c.len && r != T.size()) return fmt("text '%s' fits but only %zu bytes were reported: ", vis(T).c_str(), r) + describe(c);
    if (k.errors) return "an error was queued: " + describe(c);
    return "";
}

static void valueSet(std::vector<FCase> &out) {
    static const double vals[] = {0, 1, -1, 10.5, -10.5, 1e6, 123456, 1234567, 0.001, 1e-5, -1.25e-7, 1.23456789012345e+100, -1.23456789012345e-100,
                                  3.14159265358979, 1e15, 1e16, 999999.5, INFINITY, -INFINITY, NAN, 5e-324, 1.7976931348623157e308};
    // every unit of the table whose multiplier is 1 (those are printed), no unit
    std::vector<int> units;
    units.push_back(SCPI_UNIT_NONE);
    for (int i = 0; scpi_units_def[i].name; i++) if (scpi_units_def[i].mult == 1) { bool seen = false; for (int u : units) seen |= u == (int) scpi_units_def[i].unit; if (!seen) units.push_back((int) scpi_units_def[i].unit); }
    for (int u : units) for (double d : {10.5, -1.25e-7, 1.0, 1.23456789012345e+100}) { FCase c; c.fn = F_NUMBER; c.d = d; c.unit = u; out.push_back(c); }
    for (int tag = -1; tag <= 11; tag++) { FCase c; c.fn = F_NUMBER; c.special = 1; c.tag = tag; out.push_back(c); }
    // numbers read from #B/#Q/#H literals carry their base
    for (int b : {2, 8, 16, 0}) for (double d : {0.0, 5.0, 1365.0, 8191.0, 1099511627776.0, 9223372036854775808.0, 2.5, -3.0}) for (int u : {(int) SCPI_UNIT_NONE, (int) SCPI_UNIT_VOLT}) { FCase c; c.fn = F_NUMBER; c.d = d; c.unit = u; c.base = b; out.push_back(c); }
    for (double d : vals) {
        FCase c; c.d = d;
        c.fn = F_FLOAT; out.push_back(c);
        c.fn = F_DOUBLE; out.push_back(c);
        c.fn = F_NUMBER; c.unit = SCPI_UNIT_VOLT; out.push_back(c);
        for (int p : {1, 2, 6, 9, 15}) for (int fl : {0, 1, 4, 7}) { FCase e; e.fn = F_DTOSTRE; e.d = d; e.prec = p; e.flags = fl; out.push_back(e); }
    }
    // quoted texts with 0-3 doubled quotes at every position
    for (char q : {'"', '\''}) for (int n = 0; n <= 6; n++) for (int mask = 0; mask < (1 << n); mask++) {
        if (__builtin_popcount((unsigned) mask) > 3) continue;
        std::string t(1, q);
        for (int i = 0; i < n; i++) { if (mask & (1 << i)) { t += q; t += q; } else t += (char) ('a' + i); }
        t += q;
        FCase c; c.fn = F_COPYTEXT; c.text = t; out.push_back(c);
        if (n >= 3 && mask < 4) { c.nullLen = true; out.push_back(c); }
    }
    { FCase c; c.fn = F_COPYTEXT; c.text = "\"" + std::string(45, 'x') + "\"\"y\""; out.push_back(c); }
    for (uint64_t u : {0ULL, 7ULL, 0x7fffffffULL, 0x80000000ULL, 0xffffffffULL, 0x8000000000000000ULL, ~0ULL}) for (int b : {2, 8, 10, 16}) {
        FCase c; c.u = u; c.base = b;
        c.fn = F_UINT32; out.push_back(c); c.fn = F_UINT64; out.push_back(c);
        if (b == 10) { c.fn = F_INT32; out.push_back(c); c.fn = F_INT64; out.push_back(c); }
    }
}

static FCase g_cur;
static std::string lazyCur(const void *) { return "sub=one\n" + replayOf(g_cur); }

static void runGrid(const Opt &o, Ev &ev) {
    std::vector<FCase> vs;
    valueSet(vs);
    armLazy(lazyCur, nullptr);
    uint64_t idx = 0;
    int maxLen = o.quick() ? 40 : 70;
    for (auto &v : vs) {
        if ((idx++ % o.workers) != (uint64_t) o.worker) continue;
        static const size_t farLens[] = {127, 128, 255, 256, 257, 260, 512, 4096, 65535, 65536};     // lengths around the 8- and 16-bit marks
        for (size_t li = 0; li <= (size_t) maxLen + sizeof farLens / sizeof farLens[0]; li++) {
            size_t len = li <= (size_t) maxLen ? li : farLens[li - (size_t) maxLen - 1];
            FCase c = v; c.len = len;
            g_cur = c;
            bool nt = false;
            std::string m = checkOne(c, &nt);
            ev.eval();
            if (nt) ev.ntCount();
            ev.label(kFn[c.fn]);
            if (nt && len == 8 && ev.wantSample()) ev.sample(describe(c));
            if (!m.empty()) { failEnum(o, ev, "one", replayOf(c), m); if (ev.failures.size() >= 6) return; }
        }
    }
    disarmLazy();
    ev.exhaustive[fmt("value set (every printable unit, every special tag, 22 doubles, dtostre precisions/flags, quoted texts with <= 3 doubled quotes at every position of <= 6 characters, integer extremes) x every buffer length 0..%d", maxLen)] = true;
}

static FCase decode(Src &s) {
    FCase c;
    c.fn = (int) s.weighted({4, 2, 2, 4, 4, 1, 1, 1, 1});
    if (s.coin()) { uint64_t b = s.u64(); memcpy(&c.d, &b, 8); } else { char t[48]; snprintf(t, sizeof t, "%s%d.%de%d", s.coin() ? "-" : "", (int) s.range(0, 99999), (int) s.range(0, 999999), s.irange(-320, 308)); c.d = strtod(t, nullptr); }
    int nu = 0; while (scpi_units_def[nu].name) nu++;
    c.unit = s.coin() ? (int) scpi_units_def[s.range(0, (uint64_t) nu - 1)].unit : (int) s.range(0, 55);
    c.special = s.prob(1, 5); c.tag = s.irange(-2, 12);
    c.prec = (int) s.range(1, 15); c.flags = (int) s.range(0, 7);
    c.u = s.u64() >> s.range(0, 63); c.base = s.pick(std::vector<int>{10, 2, 8, 16});
    if (c.fn == F_NUMBER && c.base != 10 && s.coin()) c.d = (double) c.u;      // an integer, as a non-decimal literal denotes
    if (c.fn == F_COPYTEXT) {
        char q = s.coin() ? '"' : '\''; size_t n = s.range(0, 30);
        c.text = std::string(1, q);
        for (size_t i = 0; i < n; i++) { if (s.prob(1, 4)) { c.text += q; c.text += q; } else { char ch = (char) s.range(1, 127); if (ch == q) ch = 'q'; c.text += ch; } }
        c.text += q;
        c.nullLen = s.prob(1, 5);
    }
    c.len = s.prob(1, 6) ? (size_t) s.range(0, 2) : s.prob(1, 12) ? (size_t) s.pick(std::vector<int>{127, 128, 255, 256, 257, 260, 512, 4096, 65536}) : (size_t) s.range(0, 40);
    return c;
}
static std::string body(Src &s, Ev &ev) {
    FCase c = decode(s);
    bool nt = false;
    std::string m = checkOne(c, &nt);
    ev.eval();
    ev.label(std::string("rand-") + kFn[c.fn]);
    if (nt) ev.nt(hashStr(replayOf(c)));
    if (nt && ev.wantSample()) ev.sample("random: " + describe(c));
    return m;
}

int main(int argc, char **argv) {
    std::vector<Sub> subs;
    auto replayOne = [](const Replay &r) {
        FCase c; c.fn = (int) r.num("fn"); uint64_t b = strtoull(r.get("d", "0").c_str(), nullptr, 16); memcpy(&c.d, &b, 8);
        c.unit = (int) r.num("unit"); c.special = (int) r.num("special"); c.tag = (int) r.num("tag"); c.prec = (int) r.num("prec", 6); c.flags = (int) r.num("flags");
        c.u = strtoull(r.get("u", "0").c_str(), nullptr, 10); c.base = (int) r.num("base", 10); c.text = hexDec(r.get("text")); c.len = (size_t) r.num("len"); c.nullLen = r.num("nulllen") != 0;
        return checkOne(c);
    };
    subs.push_back({"one", [](const Opt &, Ev &) {}, replayOne});
    subs.push_back({"grid", runGrid, replayOne});
    subs.push_back({"rand", [](const Opt &o, Ev &ev) { runRandom(o, ev, "rand", 90, o.quick() ? 120000 : 1200000, body); },
                    [](const Replay &r) { auto v = r.choices(); Src s(v); Ev e; return body(s, e); }});
    return mainWith(argc, argv, "C15", subs);
}
