// C01 libFuzzer target 2: structure-aware.  The bytes are decoded into grammar
// choices (header from the table incl. relative and undefined ones, parameter list
// from the typed and malformed fragment generators, terminator, byte mutation), so
// that the fuzzer reaches parameter / expression / result code instead of dying in
// header matching.
#include "fuzz_common.hpp"
using namespace vf;

extern "C" int LLVMFuzzerTestOneInput(const uint8_t *data, size_t size) {
    static World W = fuzzWorld();
    Classify::get().init();
    if (size < 8) return 0;
    std::vector<uint32_t> ch;
    for (size_t i = 0; i + 1 < size; i += 2) ch.push_back((uint32_t) data[i] | ((uint32_t) data[i + 1] << 8));     // two bytes per choice
    Src s(ch);
    size_t bufSel = s.range(0, 3), bufRaw = s.range(2, 48);
    int queueLen = (int) s.range(1, 4);
    size_t heapLen = s.range(1, 64);
    int nm = (int) s.range(1, 4);
    std::string stream;
    MsgOpt mo;
    for (int m = 0; m < nm; m++) {
        mo.terminate = !s.prob(1, 8);
        std::string msg = genMessage(s, W, mo);
        if (s.prob(1, 3)) mutateBytes(s, msg);
        stream += msg;
    }
    // half of the inputs get a buffer that holds the whole stream, the others a small one (overrun / boundary paths)
    size_t bufLen = bufSel < 2 ? stream.size() + 1 + bufSel : bufSel == 2 ? bufRaw : std::min((size_t) 300, stream.size() / 2 + 2);
    if (bufLen < 2) bufLen = 2;
    Inst I(fuzzCfg(W, bufLen, queueLen, heapLen));
    I.cfg.traceValues = false;
    size_t pos = 0;
    while (pos < stream.size()) {
        size_t room = bufLen - 1 - I.ctx.buffer.position;
        size_t len = s.prob(1, 40) ? room + s.range(1, 4) : s.range(1, std::max((size_t) 1, std::min(room, (size_t) 24)));
        if (s.prob(1, 50)) { I.input("", 0); Classify::get().flushCalls++; }
        if (len > stream.size() - pos) len = stream.size() - pos;
        I.input(stream.data() + pos, (int) len);
        pos += len;
        I.trace.clear();
        if (!I.invariant.empty()) fuzzFail(I.invariant);
    }
    I.input("", 0);
    if (!I.invariant.empty()) fuzzFail(I.invariant);
    Classify::get().note(I, stream);
    I.drainErrors();
    return 0;
}
