// C01 libFuzzer target 2: structure-aware.  The bytes are decoded into grammar
// choices (header from the table incl. relative and undefined ones, parameter list
// from the typed and malformed fragment generators, terminator, byte mutation), so
// that the fuzzer reaches parameter / expression / result code instead of dying in
// header matching.
#include "fuzz_common.hpp"
using namespace vf;

extern "C" int LLVMFuzzerTestOneInput(const uint8_t *data, size_t size) {
    static World W = fuzzWorld();
    Classify::get().init();
    if (size < 8) return 0;
    std::vector<uint32_t> ch;
    for (size_t i = 0; i + 1 < size; i += 2) ch.push_back((uint32_t) data[i] | ((uint32_t) data[i + 1] << 8));     // two bytes per choice
    Src s(ch);
    Inst *I = nullptr; std::string stream;
    std::string bad = structCase(s, W, &I, &stream);
    if (!bad.empty()) fuzzFail(bad);
    Classify::get().note(*I, stream);
    I->drainErrors();
    return 0;
}
