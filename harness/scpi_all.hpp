// All library headers (public and private) for the harness, C linkage.
#pragma once
extern "C" {
#include "scpi/scpi.h"
#include "utils_private.h"
#include "lexer_private.h"
#include "parser_private.h"
#include "fifo_private.h"
}
#undef min
#undef max
