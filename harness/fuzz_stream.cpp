// C01 libFuzzer target 1: raw byte stream.  The first bytes choose input-buffer
// length, queue size, info-heap size, the chunking and whether the stream is also
// handed to SCPI_Parse directly; the rest is the byte stream over 0x00-0xFF.
#include "fuzz_common.hpp"
using namespace vf;

extern "C" int LLVMFuzzerTestOneInput(const uint8_t *data, size_t size) {
    static World W = fuzzWorld();
    Classify::get().init();
    if (size < 5) return 0;
    size_t bufLen = data[0] < 96 ? 2 + (size_t) (data[0] % 39) : 41 + (size_t) (data[0] - 96) * 259 / 159;   // 2..40 (tokens end at the buffer end) or 41..300
    int queueLen = data[1] % 4 + 1;
    size_t heapLen = (size_t) data[2] % 64 + 1;
    uint32_t lcg = data[3] * 2654435761u + 12345u;
    bool direct = data[4] & 1;
    std::string stream((const char *) data + 5, size - 5);
    {
        Inst I(fuzzCfg(W, bufLen, queueLen, heapLen));
        I.cfg.traceValues = false;
        if ((data[4] & 6) == 6) { I.ifc.error = NULL; I.ifc.control = NULL; I.ifc.reset = NULL; I.ifc.flush = NULL; Classify::get().noCallbacks++; }   // the optional callbacks may be absent
        size_t pos = 0;
        while (pos < stream.size()) {
            lcg = lcg * 1664525u + 1013904223u;
            uint32_t r = lcg >> 8;
            size_t len;
            if ((r & 63) == 0) { I.input("", 0); Classify::get().flushCalls++; continue; }        // zero-length flush call
            if ((r & 63) == 1) len = (bufLen - I.ctx.buffer.position) + ((r >> 8) & 7);             // chunk that overruns the buffer
            else len = (r >> 5) & 7;
            if (len > stream.size() - pos) len = stream.size() - pos;
            if (len == 0) { len = 1; }
            I.input(stream.data() + pos, (int) len);
            pos += len;
            I.trace.clear();
            if (!I.invariant.empty()) fuzzFail(I.invariant);
        }
        if (lcg & 0x10000) I.input("", 0);
        if (!I.invariant.empty()) fuzzFail(I.invariant);
        Classify::get().note(I, stream);
        I.drainErrors();
    }
    if (direct && !stream.empty()) {
        // a complete NUL-terminated line handed straight to the line parser
        Inst I(fuzzCfg(W, 16, queueLen, heapLen));
        I.cfg.traceValues = false;
        XBuf line(stream.size() + 1);
        memcpy(line.p, stream.data(), stream.size());
        line.p[stream.size()] = 0;
        size_t n = strlen(line.p);                 // the line ends at the first NUL
        SCPI_Parse(&I.ctx, line.p, (int) n);
        I.checkInvariants("SCPI_Parse");
        if (!I.invariant.empty()) fuzzFail(I.invariant);
        if (!line.ok()) fuzzFail("SCPI_Parse wrote past the line");
        Classify::get().direct++;
        I.drainErrors();
    }
    return 0;
}
