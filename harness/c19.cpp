// C19 - numeric and channel lists decode entry by entry exactly as written.
// Oracle: for grammar-generated lists the generator's own structure; for arbitrary
// bodies an independent prefix reader written from the list syntax.
#include "fixture.hpp"
using namespace vf;

// ------------------------------------------------------------ reference reader
static size_t refNumber(const std::string &b, size_t p) {     // length of a decimal numeric at p, 0 = none
    size_t i = p, digits = 0;
    if (i < b.size() && (b[i] == '+' || b[i] == '-')) i++;
    while (i < b.size() && isdigit((unsigned char) b[i])) { i++; digits++; }
    if (i < b.size() && b[i] == '.') { i++; while (i < b.size() && isdigit((unsigned char) b[i])) { i++; digits++; } }
    if (!digits) return 0;
    size_t j = i;
    while (j < b.size() && (b[j] == ' ' || b[j] == '\t')) j++;
    if (j < b.size() && (b[j] == 'e' || b[j] == 'E')) {
        j++;
        while (j < b.size() && (b[j] == ' ' || b[j] == '\t')) j++;
        if (j < b.size() && (b[j] == '+' || b[j] == '-')) j++;
        size_t d0 = j;
        while (j < b.size() && isdigit((unsigned char) b[j])) j++;
        if (j > d0) i = j;
    }
    return i - p;
}
enum RStat { ST_OK = 0, ST_ERROR = 1, ST_NOMORE = 2, ST_NOTOK = 3 };   // numeric values match scpi_expr_result_t; NOTOK = "anything but OK"
struct NumEntry { bool range = false; std::string from, to; };
struct ChanEntry { bool range = false; std::vector<std::string> from, to; };

// numeric list: status for index `index`
static RStat refNumeric(const std::string &body, int index, NumEntry &out) {
    size_t p = 0;
    for (int i = 0; i <= index; i++) {
        size_t l = refNumber(body, p);
        if (!l) return ST_NOTOK;   // nothing that starts an entry here: ill-formed (or empty) list - only 'not OK' is specified
        NumEntry e; e.from = body.substr(p, l); p += l;
        if (p < body.size() && body[p] == ':') {
            p++; size_t l2 = refNumber(body, p);
            if (!l2) return ST_NOTOK;
            e.range = true; e.to = body.substr(p, l2); p += l2;
        }
        if (i == index) { out = e; return ST_OK; }
        if (p < body.size() && body[p] == ',') { p++; continue; }
        return p >= body.size() ? ST_NOMORE : ST_NOTOK;
    }
    return ST_NOTOK;
}
static bool refSpec(const std::string &b, size_t &p, std::vector<std::string> &dims) {
    while (true) {
        size_t l = refNumber(b, p);
        if (!l) return false;
        dims.push_back(b.substr(p, l)); p += l;
        if (p < b.size() && b[p] == '!') { p++; continue; }
        return true;
    }
}
static RStat refChannel(const std::string &body, int index, ChanEntry &out) {
    if (body.empty() || body[0] != '@') return ST_ERROR;
    size_t p = 1;
    for (int i = 0; i <= index; i++) {
        ChanEntry e;
        if (!refSpec(body, p, e.from)) return ST_ERROR;
        if (p < body.size() && body[p] == ':') {
            p++; e.range = true;
            if (!refSpec(body, p, e.to)) return ST_ERROR;
            if (e.to.size() != e.from.size()) return ST_ERROR;
        }
        if (i == index) { out = e; return ST_OK; }
        if (p < body.size() && body[p] == ',') { p++; continue; }
        return p >= body.size() ? ST_NOMORE : ST_ERROR;
    }
    return ST_ERROR;
}
static bool isIntLit(const std::string &t) { size_t i = 0; if (i < t.size() && (t[i] == '-' || t[i] == '+')) i++; if (i >= t.size() || t.size() - i > 9) return false; for (; i < t.size(); i++) if (!isdigit((unsigned char) t[i])) return false; return true; }

// ------------------------------------------------------------ library side
struct Lib {
    scpi_t ctx; scpi_interface_t ifc; char inb[16]; scpi_error_t q[8]; scpi_command_t none[1];
    std::vector<int> errs;
    static int err(scpi_t *c, int_fast16_t e) { ((Lib *) c->user_context)->errs.push_back((int) e); return 0; }
    Lib() { memset(&ifc, 0, sizeof ifc); ifc.error = err; scpi_command_t end = SCPI_CMD_LIST_END; none[0] = end; SCPI_Init(&ctx, none, &ifc, scpi_units_def, 0, 0, 0, 0, inb, sizeof inb, q, 8); ctx.user_context = this; }
    ~Lib() { SCPI_ErrorClear(&ctx); }
};

// checks one body completely: numeric entries and channel entries at the given indices / capacities
static std::string checkBody(const std::string &body, int maxIndex, const std::vector<int> &caps, bool *nt = nullptr, uint64_t *calls = nullptr) {
    Lib L;
    std::string text = "(" + body + ")";
    XBuf tb(text.size()); memcpy(tb.p, text.data(), text.size());
    L.ctx.param_list.lex_state.buffer = L.ctx.param_list.lex_state.pos = tb.p;
    L.ctx.param_list.lex_state.len = (int) text.size();
    L.ctx.input_count = 0;
    scpi_parameter_t param;
    if (!SCPI_Parameter(&L.ctx, &param, TRUE) || param.type != SCPI_TOKEN_PROGRAM_EXPRESSION) return "'" + vis(text) + "' was not delivered as an expression parameter";
    std::string ctxs = " [body '" + vis(body) + "']";
    int nOkNum = 0, nOkChan = 0;
    for (int i = 0; i <= maxIndex; i++) {
        NumEntry ne; RStat rs = refNumeric(body, i, ne);
        L.errs.clear(); SCPI_ErrorClear(&L.ctx); L.errs.clear();
        scpi_bool_t rng = 2; scpi_parameter_t a, b;
        scpi_expr_result_t r = SCPI_ExprNumericListEntry(&L.ctx, &param, i, &rng, &a, &b);
        if (calls) (*calls)++;
        std::string w = fmt(" numeric entry %d", i) + ctxs;
        if (r == SCPI_EXPR_OK) {
            if (rs != ST_OK) return "library reports OK although the list is not well formed up to this entry:" + w;
            nOkNum++;
            if ((rng != 0) != ne.range) return fmt("isRange=%d, written %s:", (int) rng, ne.range ? "as a range" : "as a single value") + w;
            if (std::string(a.ptr, (size_t) a.len) != ne.from) return "value '" + vis(std::string(a.ptr, (size_t) a.len)) + "', written '" + ne.from + "':" + w;
            if (ne.range && std::string(b.ptr, (size_t) b.len) != ne.to) return "range end '" + vis(std::string(b.ptr, (size_t) b.len)) + "', written '" + ne.to + "':" + w;
            if (!L.errs.empty()) return "error queued with OK:" + w;
            // typed variants
            int32_t ia = 0x5a5a5a5a, ib = 0x5a5a5a5a; double da = -7.25, db = -7.25; scpi_bool_t r2 = 2, r3 = 2;
            if (SCPI_ExprNumericListEntryInt(&L.ctx, &param, i, &r2, &ia, &ib) != SCPI_EXPR_OK || SCPI_ExprNumericListEntryDouble(&L.ctx, &param, i, &r3, &da, &db) != SCPI_EXPR_OK) return "Int/Double variant disagrees with the token variant:" + w;
            if ((r2 != 0) != ne.range || (r3 != 0) != ne.range) return "Int/Double variant reports a different isRange:" + w;
            std::string canon; for (char ch : ne.from) if (ch != ' ' && ch != '\t') canon += ch;
            // typed values are compared only where the entry is followed by list syntax (',' ':' or the end): for other
            // content the statement promises "OK only if well formed so far", not a value
            size_t endFrom = (size_t) (a.ptr - param.ptr) - 1 + (size_t) a.len;
            bool delimited = endFrom >= body.size() || body[endFrom] == ',' || body[endFrom] == ':';
            if (ne.range) { size_t endTo = (size_t) (b.ptr - param.ptr) - 1 + (size_t) b.len; delimited = delimited && (endTo >= body.size() || body[endTo] == ','); }
            if (!delimited) continue;
            if (da != strtod(canon.c_str(), nullptr) && canon == ne.from) return fmt("Double variant value %.17g for '%s':", da, ne.from.c_str()) + w;
            if (isIntLit(ne.from) && ia != atoi(ne.from.c_str())) return fmt("Int variant value %d for '%s':", ia, ne.from.c_str()) + w;
            if (ne.range) { if (isIntLit(ne.to) && ib != atoi(ne.to.c_str())) return fmt("Int variant range end %d for '%s':", ib, ne.to.c_str()) + w; }
        } else {
            if (rs == ST_OK) return fmt("library reports %s for a well-formed entry:", r == SCPI_EXPR_ERROR ? "ERROR" : "NO_MORE") + w;
            if (rs == ST_NOMORE && r != SCPI_EXPR_NO_MORE) return "library reports ERROR beyond the last entry of a well-formed list (expected NO_MORE):" + w;
            if (r == SCPI_EXPR_ERROR && !(L.errs.size() == 1 && L.errs[0] == -170)) return fmt("ERROR came with %zu queued errors (first %d), expected exactly one -170:", L.errs.size(), L.errs.empty() ? 0 : L.errs[0]) + w;
            if (r == SCPI_EXPR_NO_MORE && !L.errs.empty()) return "NO_MORE came with a queued error:" + w;
        }
    }
    for (int cap : caps) for (int i = 0; i <= maxIndex; i++) {
        ChanEntry ce; RStat rs = refChannel(body, i, ce);
        L.errs.clear(); SCPI_ErrorClear(&L.ctx); L.errs.clear();
        XBuf fb((size_t) cap * 4, 0x5a), tb2((size_t) cap * 4, 0x5a);
        scpi_bool_t rng = 2; size_t dims = 777;
        scpi_expr_result_t r = SCPI_ExprChannelListEntry(&L.ctx, &param, i, &rng, (int32_t *) fb.p, (int32_t *) tb2.p, (size_t) cap, &dims);
        if (calls) (*calls)++;
        std::string w = fmt(" channel entry %d capacity %d", i, cap) + ctxs;
        if (!fb.ok() || !tb2.ok()) return "values stored beyond the announced capacity:" + w;
        if ((int) r != (int) rs) return fmt("library reports %d, reference %d (0=OK 1=ERROR 2=NO_MORE):", (int) r, (int) rs) + w;
        if (r == SCPI_EXPR_OK) {
            nOkChan++;
            if ((rng != 0) != ce.range) return "isRange differs from what is written:" + w;
            if (dims != ce.from.size()) return fmt("dimension count %zu, written %zu:", dims, ce.from.size()) + w;
            for (size_t d = 0; d < std::min(dims, (size_t) cap); d++) {
                if (isIntLit(ce.from[d]) && ((int32_t *) fb.p)[d] != atoi(ce.from[d].c_str())) return fmt("dimension %zu is %d, written '%s':", d, ((int32_t *) fb.p)[d], ce.from[d].c_str()) + w;
                if (ce.range && isIntLit(ce.to[d]) && ((int32_t *) tb2.p)[d] != atoi(ce.to[d].c_str())) return fmt("range end dimension %zu is %d, written '%s':", d, ((int32_t *) tb2.p)[d], ce.to[d].c_str()) + w;
            }
            for (size_t d = std::min(dims, (size_t) cap); d < (size_t) cap; d++) if (((uint32_t *) fb.p)[d] != 0x5a5a5a5au) return fmt("slot %zu beyond the dimension count was written:", d) + w;
            if (!L.errs.empty()) return "error queued with OK:" + w;
        } else if (r == SCPI_EXPR_ERROR) {
            if (!(L.errs.size() == 1 && L.errs[0] == -170)) return fmt("ERROR came with %zu queued errors (first %d), expected exactly one -170:", L.errs.size(), L.errs.empty() ? 0 : L.errs[0]) + w;
        } else if (!L.errs.empty()) return "NO_MORE came with a queued error:" + w;
    }
    if (nt) *nt = nOkNum >= 2 || nOkChan >= 2 * (int) caps.size() || (nOkNum >= 1 && body.find(':') != std::string::npos) || (nOkChan >= 1 && body.find('!') != std::string::npos);
    return "";
}

// two expression parameters of one command, read in an arbitrary interleaving: every query must answer for its own list
// exactly as it does when that list is the only parameter (the entry functions take the parameter as an argument; what
// they may remember between calls must not leak from one list into the other).  order: pairs (which list, index).
static std::string checkTwoLists(const std::string &bodyA, const std::string &bodyB, const std::vector<std::pair<int, int>> &order, bool numeric, uint64_t *calls = nullptr) {
    Lib L;
    std::string text = "(" + bodyA + "),(" + bodyB + ")";
    XBuf tb(text.size()); memcpy(tb.p, text.data(), text.size());
    L.ctx.param_list.lex_state.buffer = L.ctx.param_list.lex_state.pos = tb.p;
    L.ctx.param_list.lex_state.len = (int) text.size();
    L.ctx.input_count = 0;
    scpi_parameter_t par[2];
    for (int k = 0; k < 2; k++) if (!SCPI_Parameter(&L.ctx, &par[k], TRUE) || par[k].type != SCPI_TOKEN_PROGRAM_EXPRESSION) return "'" + vis(text) + "' was not delivered as two expression parameters";
    const std::string *bodies[2] = {&bodyA, &bodyB};
    std::string trail;
    for (auto &q : order) {
        int which = q.first & 1, i = q.second;
        trail += fmt("%c[%d] ", which ? 'b' : 'a', i);
        std::string w = " after the reads " + trail + "on '" + vis(text) + "'";
        L.errs.clear(); SCPI_ErrorClear(&L.ctx); L.errs.clear();
        if (calls) (*calls)++;
        if (numeric) {
            NumEntry ne; RStat rs = refNumeric(*bodies[which], i, ne);
            scpi_bool_t rng = 2; scpi_parameter_t a, b;
            scpi_expr_result_t r = SCPI_ExprNumericListEntry(&L.ctx, &par[which], i, &rng, &a, &b);
            if ((r == SCPI_EXPR_OK) != (rs == ST_OK)) return fmt("numeric entry reports %d, alone it is %d (0=OK 1=ERROR 2=NO_MORE)", (int) r, (int) rs) + w;
            if (r == SCPI_EXPR_OK && ((rng != 0) != ne.range || std::string(a.ptr, (size_t) a.len) != ne.from || (ne.range && std::string(b.ptr, (size_t) b.len) != ne.to))) return "numeric entry differs from what is written in its own list" + w;
        } else {
            ChanEntry ce; RStat rs = refChannel(*bodies[which], i, ce);
            XBuf fb(16, 0x5a), tb2(16, 0x5a);
            scpi_bool_t rng = 2; size_t dims = 777;
            scpi_expr_result_t r = SCPI_ExprChannelListEntry(&L.ctx, &par[which], i, &rng, (int32_t *) fb.p, (int32_t *) tb2.p, 4, &dims);
            if ((int) r != (int) rs) return fmt("channel entry reports %d, alone it is %d (0=OK 1=ERROR 2=NO_MORE)", (int) r, (int) rs) + w;
            if (r == SCPI_EXPR_OK) {
                if ((rng != 0) != ce.range || dims != ce.from.size()) return "isRange / dimension count differ from what is written in its own list" + w;
                for (size_t d = 0; d < std::min(dims, (size_t) 4); d++) {
                    if (isIntLit(ce.from[d]) && ((int32_t *) fb.p)[d] != atoi(ce.from[d].c_str())) return fmt("dimension %zu is %d, written '%s'", d, ((int32_t *) fb.p)[d], ce.from[d].c_str()) + w;
                    if (ce.range && isIntLit(ce.to[d]) && ((int32_t *) tb2.p)[d] != atoi(ce.to[d].c_str())) return fmt("range end dimension %zu is %d, written '%s'", d, ((int32_t *) tb2.p)[d], ce.to[d].c_str()) + w;
                }
                if (!L.errs.empty()) return "error queued with OK" + w;
            } else if (r == SCPI_EXPR_ERROR) { if (!(L.errs.size() == 1 && L.errs[0] == -170)) return "ERROR without exactly one -170" + w; }
            else if (!L.errs.empty()) return "NO_MORE came with a queued error" + w;
        }
    }
    return "";
}
static std::vector<std::pair<int, int>> orderOf(int shape, int maxIndex) {
    std::vector<std::pair<int, int>> o;
    for (int i = 0; i <= maxIndex; i++) switch (shape) {
        case 0: o.push_back({0, i}); o.push_back({1, i}); break;                       // a0 b0 a1 b1 ...
        case 1: o.push_back({1, i}); o.push_back({0, i}); break;                       // b0 a0 b1 a1 ...
        case 2: o.push_back({0, i}); o.push_back({1, maxIndex - i}); break;            // a ascending, b descending
        default: o.push_back({0, i}); o.push_back({0, i}); o.push_back({1, i ? i - 1 : 0}); break;
    }
    return o;
}
static std::string replayTwo(const Replay &r) { return checkTwoLists(hexDec(r.get("a")), hexDec(r.get("b")), orderOf((int) r.num("shape"), (int) r.num("max", 4)), r.num("numeric") != 0); }
static void runTwo(const Opt &o, Ev &ev) {
    static const char *const chan[] = {"@1,2,3", "@11,12,13", "@4,5:8,9", "@20", "@1!2,3!4:5!6", "@1:2,3", "@7!8!9", "@1,", "@"};
    static const char *const num[] = {"1,2,3", "11,12:13", "4", "5:8,9", "1.5,2e3:4", "1,,2", ""};
    uint64_t idx = 0, calls = 0;
    for (int numeric = 0; numeric < 2; numeric++) {
        const char *const *pool = numeric ? num : chan; size_t n = numeric ? sizeof num / sizeof num[0] : sizeof chan / sizeof chan[0];
        for (size_t a = 0; a < n; a++) for (size_t b = 0; b < n; b++) for (int shape = 0; shape < 4; shape++) {
            if ((idx++ % (uint64_t) o.workers) != (uint64_t) o.worker) continue;
            armCase(fmt("sub=two\na=%s\nb=%s\nshape=%d\nmax=4\nnumeric=%d\n", hexEnc(pool[a]).c_str(), hexEnc(pool[b]).c_str(), shape, numeric));
            std::string m = checkTwoLists(pool[a], pool[b], orderOf(shape, 4), numeric != 0, &calls);
            ev.ntCount();
            if (a == 0 && shape == 0 && ev.wantSample()) ev.sample(fmt("two lists read alternately: (%s),(%s)", pool[a], pool[b]));
            if (!m.empty()) { failEnum(o, ev, "two", fmt("a=%s\nb=%s\nshape=%d\nmax=4\nnumeric=%d\n", hexEnc(pool[a]).c_str(), hexEnc(pool[b]).c_str(), shape, numeric), m); if (ev.failures.size() >= 4) return; }
        }
    }
    disarmCase();
    ev.eval(calls); ev.label("two-list-entry-queries", calls);
    ev.exhaustive["all ordered pairs of 9 channel-list and of 7 numeric-list bodies as two parameters of one command, entries 0..4 read in four interleavings"] = true;
}

// the same context and the same buffer address used for one expression after another (what happens when successive
// messages are parsed into the input buffer): entries of the later expression are read in an arbitrary order - descending,
// one index directly - and must answer for the text that is in the buffer NOW
static std::string checkSuccessive(const std::vector<std::string> &bodies, const std::vector<std::vector<int>> &orders, bool numeric, uint64_t *calls = nullptr) {
    Lib L;
    size_t maxLen = 0; for (auto &b : bodies) maxLen = std::max(maxLen, b.size() + 2);
    XBuf tb(maxLen);
    std::string hist;
    for (size_t bi = 0; bi < bodies.size(); bi++) {
        const std::string &body = bodies[bi];
        std::string text = "(" + body + ")";
        memset(tb.p, ' ', maxLen); memcpy(tb.p, text.data(), text.size());
        L.ctx.param_list.lex_state.buffer = L.ctx.param_list.lex_state.pos = tb.p;
        L.ctx.param_list.lex_state.len = (int) text.size();
        L.ctx.input_count = 0;
        scpi_parameter_t param;
        if (!SCPI_Parameter(&L.ctx, &param, TRUE) || param.type != SCPI_TOKEN_PROGRAM_EXPRESSION) return "'" + vis(text) + "' was not delivered as an expression parameter";
        hist += "(" + body + ") read at";
        for (int i : orders[bi]) {
            hist += fmt(" %d", i);
            std::string w = " in the history " + hist;
            L.errs.clear(); SCPI_ErrorClear(&L.ctx); L.errs.clear();
            if (calls) (*calls)++;
            if (numeric) {
                NumEntry ne; RStat rs = refNumeric(body, i, ne);
                scpi_bool_t rng = 2; scpi_parameter_t a, b;
                scpi_expr_result_t r = SCPI_ExprNumericListEntry(&L.ctx, &param, i, &rng, &a, &b);
                if ((r == SCPI_EXPR_OK) != (rs == ST_OK)) return fmt("numeric entry %d reports %d, the text in the buffer says %d (0=OK 1=ERROR 2=NO_MORE)", i, (int) r, (int) rs) + w;
                if (r == SCPI_EXPR_OK && ((rng != 0) != ne.range || std::string(a.ptr, (size_t) a.len) != ne.from || (ne.range && std::string(b.ptr, (size_t) b.len) != ne.to))) return fmt("numeric entry %d differs from what is written", i) + w;
            } else {
                ChanEntry ce; RStat rs = refChannel(body, i, ce);
                XBuf fb(16, 0x5a), tb2(16, 0x5a);
                scpi_bool_t rng = 2; size_t dims = 777;
                scpi_expr_result_t r = SCPI_ExprChannelListEntry(&L.ctx, &param, i, &rng, (int32_t *) fb.p, (int32_t *) tb2.p, 4, &dims);
                if ((int) r != (int) rs) return fmt("channel entry %d reports %d, the text in the buffer says %d (0=OK 1=ERROR 2=NO_MORE)", i, (int) r, (int) rs) + w;
                if (r == SCPI_EXPR_OK) {
                    if ((rng != 0) != ce.range || dims != ce.from.size()) return fmt("channel entry %d: isRange / dimension count differ from what is written", i) + w;
                    for (size_t d = 0; d < std::min(dims, (size_t) 4); d++) {
                        if (isIntLit(ce.from[d]) && ((int32_t *) fb.p)[d] != atoi(ce.from[d].c_str())) return fmt("channel entry %d dimension %zu is %d, written '%s'", i, d, ((int32_t *) fb.p)[d], ce.from[d].c_str()) + w;
                        if (ce.range && isIntLit(ce.to[d]) && ((int32_t *) tb2.p)[d] != atoi(ce.to[d].c_str())) return fmt("channel entry %d range end dimension %zu is %d, written '%s'", i, d, ((int32_t *) tb2.p)[d], ce.to[d].c_str()) + w;
                    }
                }
            }
        }
        hist += "; ";
    }
    return "";
}
static std::vector<int> walkOf(int shape) {
    switch (shape) { case 0: return {0, 1, 2, 3, 4}; case 1: return {4, 3, 2, 1, 0}; case 2: return {3}; case 3: return {2, 4, 1}; default: return {1, 1, 0, 3}; }
}
static std::string replaySucc(const Replay &r) { return checkSuccessive({hexDec(r.get("a")), hexDec(r.get("b"))}, {walkOf((int) r.num("wa")), walkOf((int) r.num("wb"))}, r.num("numeric") != 0); }
static void runSucc(const Opt &o, Ev &ev) {
    static const char *const chan[] = {"@1,2,3,4", "@10,20,30,40", "@4,5:8,9", "@20", "@1!2,3!4:5!6,7!8", "@100:200,3,4:5"};
    static const char *const num[] = {"1,2,3,4", "10,20,30:35,40", "4", "5:8,9,1,2", "1.5,2e3:4,7"};
    uint64_t idx = 0, calls = 0;
    for (int numeric = 0; numeric < 2; numeric++) {
        const char *const *pool = numeric ? num : chan; size_t n = numeric ? sizeof num / sizeof num[0] : sizeof chan / sizeof chan[0];
        for (size_t a = 0; a < n; a++) for (size_t b = 0; b < n; b++) for (int wa = 0; wa < 5; wa++) for (int wb = 0; wb < 5; wb++) {
            if ((idx++ % (uint64_t) o.workers) != (uint64_t) o.worker) continue;
            std::string rep = fmt("a=%s\nb=%s\nwa=%d\nwb=%d\nnumeric=%d\n", hexEnc(pool[a]).c_str(), hexEnc(pool[b]).c_str(), wa, wb, numeric);
            armCase("sub=succ\n" + rep);
            std::string m = checkSuccessive({pool[a], pool[b]}, {walkOf(wa), walkOf(wb)}, numeric != 0, &calls);
            ev.ntCount();
            if (!m.empty()) { failEnum(o, ev, "succ", rep, m); if (ev.failures.size() >= 4) return; }
        }
    }
    disarmCase();
    ev.eval(calls); ev.label("successive-expression-entry-queries", calls);
    ev.exhaustive["all ordered pairs of 6 channel-list and of 5 numeric-list bodies parsed one after the other at the same buffer address on one context, each read in five walks (ascending, descending, one index, mixed)"] = true;
}

static std::string g_curBody;
static std::string lazyCur(const void *) { return "sub=body\nbody=" + hexEnc(g_curBody) + "\n"; }

static void runEnum(const Opt &o, Ev &ev) {
    static const char alpha[] = {'1', '2', '-', '.', ':', ',', '!', '@', ' ', 'x'};
    int maxLen = o.quick() ? 6 : 7;
    armLazy(lazyCur, nullptr);
    std::vector<int> caps = o.quick() ? std::vector<int>{0, 1, 2, 4} : std::vector<int>{0, 1, 2, 3, 4};
    uint64_t idx = 0, calls = 0;
    for (int len = 0; len <= maxLen; len++) {
        uint64_t total = 1; for (int i = 0; i < len; i++) total *= 10;
        for (uint64_t kx = 0; kx < total; kx++) {
            if ((idx++ % (uint64_t) o.workers) != (uint64_t) o.worker) continue;
            std::string b; uint64_t x = kx;
            for (int i = 0; i < len; i++) { b += alpha[x % 10]; x /= 10; }
            g_curBody = b;
            bool nt = false;
            // indices 0..4 cover every entry a body of <= 7 characters can hold plus one beyond; 9 is the far end
            std::string m = checkBody(b, 4, caps, &nt, &calls);
            if (nt) { ev.ntCount(); if (ev.wantSample()) ev.sample("(" + b + ")"); }
            if (!m.empty()) { failEnum(o, ev, "body", "body=" + hexEnc(b) + "\n", m); if (ev.failures.size() >= 4) return; }
        }
    }
    disarmLazy();
    ev.eval(calls);
    ev.label("enumerated-entry-queries", calls);
    ev.exhaustive[fmt("all expression bodies of length <= %d over {1 2 - . : , ! @ space x}: numeric entries 0..4 and channel entries 0..4 at capacities %s", maxLen, o.quick() ? "0,1,2,4" : "0..4")] = true;
}

// grammar-generated lists (and mutations of them)
static std::string genNumber(Src &s, bool intOnly) {
    std::string t;
    if (s.prob(1, 4)) t += s.coin() ? '-' : '+';
    if (intOnly) { int n = (int) s.range(1, 6); for (int i = 0; i < n; i++) t += (char) ('0' + s.range(i ? 0 : 1, 9)); return t; }
    switch (s.weighted({4, 2, 1, 2})) {
        case 0: { int n = (int) s.range(1, 6); for (int i = 0; i < n; i++) t += (char) ('0' + s.range(0, 9)); break; }
        case 1: { int n = (int) s.range(1, 4); for (int i = 0; i < n; i++) t += (char) ('0' + s.range(0, 9)); t += '.'; n = (int) s.range(0, 4); for (int i = 0; i < n; i++) t += (char) ('0' + s.range(0, 9)); break; }
        case 2: { t += '.'; int n = (int) s.range(1, 4); for (int i = 0; i < n; i++) t += (char) ('0' + s.range(0, 9)); break; }
        default: { int n = (int) s.range(1, 3); for (int i = 0; i < n; i++) t += (char) ('0' + s.range(0, 9)); if (s.coin()) { t += '.'; t += (char) ('0' + s.range(0, 9)); } t += s.coin() ? 'e' : 'E'; if (s.coin()) t += s.coin() ? '-' : '+'; t += (char) ('0' + s.range(0, 9)); if (s.coin()) t += (char) ('0' + s.range(0, 9)); break; }
    }
    return t;
}
static std::string genBody(Src &s, bool chan, int &n, int &dimsMax, bool &anyRange, bool &mutated);
static std::string body(Src &s, Ev &ev) {
    bool chan = s.coin();
    int n = 0, dimsMax = 0; bool anyRange = false, mutated = false;
    std::string b = genBody(s, chan, n, dimsMax, anyRange, mutated);
    bool nt = false; uint64_t calls = 0;
    std::string m = checkBody(b, 9, {0, 1, 2, 3, 4, 5}, &nt, &calls);
    if (m.empty() && s.prob(1, 4)) {
        // the same list next to a second one, entries of both read in a generated order
        int n2 = 0, d2 = 0; bool r2 = false, m2 = false;
        std::string b2 = genBody(s, chan, n2, d2, r2, m2);
        std::vector<std::pair<int, int>> order; int q = (int) s.range(2, 14);
        for (int i = 0; i < q; i++) order.push_back({(int) s.range(0, 1), (int) s.range(0, 9)});
        m = checkTwoLists(b, b2, order, !chan, &calls);
        ev.label("two-lists-interleaved");
    }
    if (m.empty() && s.prob(1, 6)) {
        // the same context decodes a second generated list at the same buffer address; both are read in generated orders
        int n2 = 0, d2 = 0; bool r2 = false, m2 = false;
        std::string b2 = genBody(s, chan, n2, d2, r2, m2);
        std::vector<std::vector<int>> orders(2);
        for (auto &o : orders) { int q = (int) s.range(1, 7); for (int i = 0; i < q; i++) o.push_back((int) s.range(0, 9)); }
        m = checkSuccessive({b, b2}, orders, !chan, &calls);
        ev.label("successive-lists-same-address");
    }
    ev.eval(calls);
    ev.label(chan ? (mutated ? "mutated-channel-list" : "channel-list") : (mutated ? "mutated-numeric-list" : "numeric-list"));
    if (n >= 2 && (anyRange || dimsMax >= 2)) { ev.nt(hashStr(b)); if (ev.wantSample()) ev.sample("(" + b + ")"); }
    return m;
}
static std::string genBody(Src &s, bool chan, int &n, int &dimsMax, bool &anyRange, bool &mutated) {
    n = (int) s.range(1, 8);
    std::string b = chan ? "@" : "";
    dimsMax = 0; anyRange = false;
    for (int i = 0; i < n; i++) {
        if (i) b += ',';
        if (chan) {
            int d = (int) s.range(1, 5); dimsMax = std::max(dimsMax, d);
            for (int k = 0; k < d; k++) { if (k) b += '!'; b += genNumber(s, true); }
            if (s.prob(1, 3)) { anyRange = true; b += ':'; for (int k = 0; k < d; k++) { if (k) b += '!'; b += genNumber(s, true); } }
        } else {
            b += genNumber(s, false);
            if (s.prob(1, 3)) { anyRange = true; b += ':'; b += genNumber(s, false); }
        }
    }
    mutated = s.prob(1, 3);
    if (mutated && !b.empty()) {
        size_t pos = s.range(0, b.size() - 1);
        switch (s.range(0, 3)) {
            case 0: b.erase(pos, 1); break;
            case 1: b.insert(pos, 1, s.pickc(",:!@ x.-1")); break;
            case 2: b[pos] = s.pickc(",:!@ x.-1"); break;
            default: b.resize(pos); break;
        }
    }
    return b;
}

int main(int argc, char **argv) {
    std::vector<Sub> subs;
    subs.push_back({"body", [](const Opt &, Ev &) {}, [](const Replay &r) { return checkBody(hexDec(r.get("body")), 9, {0, 1, 2, 3, 4, 5}); }});
    subs.push_back({"enum", runEnum, [](const Replay &r) { return checkBody(hexDec(r.get("body")), 9, {0, 1, 2, 3, 4, 5}); }});
    subs.push_back({"two", runTwo, replayTwo});
    subs.push_back({"succ", runSucc, replaySucc});
    subs.push_back({"rand", [](const Opt &o, Ev &ev) { runRandom(o, ev, "rand", 400, o.quick() ? 30000 : 300000, body); },
                    [](const Replay &r) { auto v = r.choices(); Src s(v); Ev e; return body(s, e); }});
    return mainWith(argc, argv, "C19", subs);
}
