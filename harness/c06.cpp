// C06 - responses are framed: ';' between units, ',' between items, one terminator.
// Oracle: byte-exact expected output built by an independent renderer; the one
// point the statement leaves open (does a successful query that emits nothing
// "respond"?) is accepted in both readings and nothing else.
#include "gen.hpp"
using namespace vf;

enum Outcome { OC_OK, OC_FAIL_SILENT, OC_FAIL_OWNERR, OC_OK_OWNERR };
struct Entry { bool query; std::vector<OItem> items; int outcome; int ownErrAt; bool hasParam; };
struct UnitRef { int entry; bool badParam; bool undefinedQuery; };   // entry -1 = undefined header
struct FCase { std::vector<Entry> entries; std::vector<std::vector<UnitRef>> messages; std::vector<std::string> texts; bool decoy = false; bool noFlush = false; };

static FCase decode(Src &s) {
    FCase c;
    int ne = (int) s.range(3, 7);
    for (int i = 0; i < ne; i++) {
        Entry e; e.query = s.prob(3, 4); e.outcome = OC_OK; e.ownErrAt = 0; e.hasParam = false;
        if (e.query) {
            int ni = (int) s.weighted({2, 4, 3, 2, 1});
            for (int k = 0; k < ni; k++) e.items.push_back(genItem(s));
            e.outcome = (int) s.weighted({6, 2, 2, 1});
            e.ownErrAt = (int) s.range(0, (uint64_t) ni);
        } else e.hasParam = s.coin();
        c.entries.push_back(e);
    }
    int nm = s.prob(1, 2) ? 2 : 1;
    for (int m = 0; m < nm; m++) {
        std::vector<UnitRef> units; std::string t;
        int nu = s.prob(1, 400) ? (int) s.range(257, 300) : (int) s.weighted({2, 3, 3, 2, 1, 1}) + 1;   // now and then more units than 8 bits count
        for (int u = 0; u < nu; u++) {
            UnitRef r; r.entry = s.prob(1, 8) ? -1 : (int) s.range(0, (uint64_t) ne - 1); r.badParam = false; r.undefinedQuery = s.coin();
            std::string h;
            if (r.entry < 0) h = r.undefinedQuery ? "NOPE?" : "NOPE";
            else {
                const Entry &e = c.entries[(size_t) r.entry];
                h = fmt("%s%d%s", e.query ? "Q" : "C", r.entry, e.query ? "?" : "");
                if (e.hasParam) { r.badParam = s.prob(1, 3); h += r.badParam ? " 'text'" : " 5"; }
            }
            t += (u ? ";" : "") + wsp(s, 1) + h;
            units.push_back(r);
        }
        t += s.pick(std::vector<std::string>{"\n", "\r\n"});
        c.messages.push_back(units); c.texts.push_back(t);
    }
    c.decoy = s.prob(1, 4);      // a second instrument is fed the same bytes first (fixture.hpp)
    c.noFlush = s.prob(1, 5);    // an interface without the optional flush/control/reset callbacks: the bytes are the same
    return c;
}

static std::string describe(const FCase &c) {
    std::string t = "entries [";
    for (size_t i = 0; i < c.entries.size(); i++) {
        const Entry &e = c.entries[i];
        t += fmt("%s%zu%s:", e.query ? "Q" : "C", i, e.query ? "?" : "");
        if (e.query) { t += fmt("%zu items", e.items.size()); static const char *oc[] = {",ok", ",fails silently", ",own error then fails", ",own error then succeeds"}; t += oc[e.outcome]; if (e.outcome >= OC_FAIL_OWNERR) t += fmt("(after item %d)", e.ownErrAt); }
        else t += e.hasParam ? "int param" : "no param";
        t += " ";
    }
    t += "] messages";
    for (auto &m : c.texts) t += " '" + vis(m) + "'";
    return t;
}

static std::string runCase(const FCase &c, bool *nt = nullptr, std::vector<std::string> *labels = nullptr) {
    InstCfg k; k.bufLen = 256; k.queueLen = 64; k.heapLen = 4096; k.decoy = c.decoy; k.noOptionalCallbacks = c.noFlush;
    for (auto &t : c.texts) if (t.size() + 8 > k.bufLen) { k.bufLen = t.size() + 8; k.queueLen = 640; k.heapLen = 16384; }
    for (size_t i = 0; i < c.entries.size(); i++) {
        const Entry &e = c.entries[i];
        Cmd cmd; cmd.pattern = fmt("%s%zu%s", e.query ? "Q" : "C", i, e.query ? "?" : "");
        if (e.hasParam) cmd.script.readers.push_back(Reader());
        for (size_t j = 0; j <= e.items.size(); j++) {
            if (e.query && e.outcome >= OC_FAIL_OWNERR && (int) j == e.ownErrAt) { OItem x; x.kind = O_ERRPUSH; x.code = -221; cmd.script.items.push_back(x); }
            if (j < e.items.size()) cmd.script.items.push_back(e.items[j]);
        }
        cmd.script.retOk = !(e.outcome == OC_FAIL_SILENT || e.outcome == OC_FAIL_OWNERR);
        k.cmds.push_back(cmd);
    }
    Inst I(k);
    bool interesting = false;
    for (size_t m = 0; m < c.messages.size(); m++) {
        I.out.clear(); I.trace.clear(); I.flushes = 0;
        I.input(c.texts[m]);
        if (!I.invariant.empty()) return I.invariant + ": " + describe(c);
        // response units
        std::vector<std::string> unitsA, unitsB;
        int emitting = 0, quiet = 0;
        for (size_t u = 0; u < c.messages[m].size(); u++) {
            const UnitRef &r = c.messages[m][u];
            if (r.entry < 0) { quiet++; continue; }
            const Entry &e = c.entries[(size_t) r.entry];
            if (!e.query) { quiet++; continue; }
            std::string unit; size_t n = 0;
            for (auto &it : e.items) { unit += (n ? "," : "") + renderItem(it); n += itemCount(it); }
            if (n > 0) { unitsA.push_back(unit); unitsB.push_back(unit); emitting++; }
            else { quiet++; if (e.outcome == OC_OK) unitsB.push_back(""); }
            if (e.outcome != OC_OK) quiet++;
            if (labels) {
                if (n > 0 && e.outcome != OC_OK) labels->push_back(u == 0 ? "failing-first" : u + 1 == c.messages[m].size() ? "failing-last" : "failing-middle");
                if (n == 0) labels->push_back("zero-item-query");
            }
        }
        if (c.messages[m].size() >= 2 && emitting >= 1 && quiet >= 1) interesting = true;
        if (labels && m > 0) labels->push_back("after-previous-message");
        auto join = [](const std::vector<std::string> &v) { std::string o; for (size_t i = 0; i < v.size(); i++) o += (i ? ";" : "") + v[i]; return v.empty() ? o : o + "\r\n"; };
        std::string expA = join(unitsA), expB = join(unitsB);
        if (I.out != expA && I.out != expB)
            return fmt("message %zu: output '", m) + vis(I.out) + "' is neither '" + vis(expA) + "'" + (expB != expA ? " nor '" + vis(expB) + "'" : "") + ": " + describe(c);
        int expFlush = I.out.empty() || c.noFlush ? 0 : 1;
        if (I.flushes != expFlush) return fmt("message %zu: %d flushes, expected %d: ", m, I.flushes, expFlush) + describe(c);
        if (expFlush) { bool seenF = false; for (auto &l : I.trace) { if (l == "F") seenF = true; else if (l[0] == 'W' && seenF) return fmt("message %zu: bytes written after the flush: ", m) + describe(c); } }
    }
    if (nt) *nt = interesting;
    return "";
}

// explicit replay form: entries=Q:<items>:<outcome>:<ownErrAt>|C:<hasParam>|...  texts=<hex>|<hex>  (items are Int32 1,2,3..)
static FCase fromReplay(const Replay &r) {
    FCase c;
    std::string es = r.get("entries"); size_t i = 0;
    while (i <= es.size()) {
        size_t e = es.find('|', i); std::string spec = es.substr(i, e == std::string::npos ? std::string::npos : e - i);
        Entry en; en.query = spec[0] == 'Q'; en.outcome = OC_OK; en.ownErrAt = 0; en.hasParam = false;
        int a = 0, b = 0, d = 0; sscanf(spec.c_str() + 2, "%d:%d:%d", &a, &b, &d);
        if (en.query) { for (int k = 0; k < a; k++) { OItem it; it.kind = O_I32; it.u = (uint64_t) (k + 1); en.items.push_back(it); } en.outcome = b; en.ownErrAt = d; } else en.hasParam = a != 0;
        c.entries.push_back(en);
        if (e == std::string::npos) break; i = e + 1;
    }
    std::string ts = r.get("texts"); i = 0;
    while (i <= ts.size()) {
        size_t e = ts.find('|', i); std::string text = hexDec(ts.substr(i, e == std::string::npos ? std::string::npos : e - i));
        c.texts.push_back(text);
        std::vector<UnitRef> units; std::string body = text; while (!body.empty() && (body.back() == '\n' || body.back() == '\r')) body.pop_back();
        size_t p = 0;
        while (p <= body.size()) {
            size_t q = body.find(';', p); std::string u = body.substr(p, q == std::string::npos ? std::string::npos : q - p);
            size_t a0 = u.find_first_not_of(" \t"); if (a0 == std::string::npos) a0 = u.size(); u = u.substr(a0);
            UnitRef ur; ur.entry = -1; ur.badParam = u.find('\'') != std::string::npos; ur.undefinedQuery = u.find('?') != std::string::npos;
            if (u.size() >= 2 && (u[0] == 'Q' || u[0] == 'C') && isdigit((unsigned char) u[1])) ur.entry = atoi(u.c_str() + 1);
            units.push_back(ur);
            if (q == std::string::npos) break; p = q + 1;
        }
        c.messages.push_back(units);
        if (e == std::string::npos) break; i = e + 1;
    }
    return c;
}

static std::string body(Src &s, Ev &ev) {
    FCase c = decode(s);
    bool nt = false; std::vector<std::string> labels;
    std::string m = runCase(c, &nt, &labels);
    ev.eval();
    std::sort(labels.begin(), labels.end()); labels.erase(std::unique(labels.begin(), labels.end()), labels.end());
    for (auto &l : labels) ev.label(l);
    if (nt) { ev.nt(hashStr(describe(c))); if (ev.wantSample()) ev.sample(describe(c)); }
    return m;
}

int main(int argc, char **argv) {
    std::vector<Sub> subs;
    subs.push_back({"msg", [](const Opt &, Ev &) {}, [](const Replay &r) { return runCase(fromReplay(r)); }});
    subs.push_back({"rand", [](const Opt &o, Ev &ev) { runRandom(o, ev, "rand", 420, o.quick() ? 20000 : 200000, body); },
                    [](const Replay &r) { auto v = r.choices(); Src s(v); Ev e; return body(s, e); }});
    return mainWith(argc, argv, "C06", subs);
}
