// Exploration engines over the status machine: explicit-state closure (BFS with
// context snapshots), all operation sequences up to a bound (DFS with snapshots),
// random walks over full 16-bit values (rapidcheck).  Parameterised by the
// per-transition checker of the property (C11 or C12).
#pragma once
#include "status.hpp"
#include <deque>

namespace vf {

typedef std::string (*StepCheck)(const Regs &before, const Op &o, const Regs &after, Inst &I);

struct Snap { scpi_t ctx; std::vector<char> q; };
inline void save(Inst &I, Snap &s) { s.ctx = I.ctx; s.q.assign(I.qbuf->p, I.qbuf->p + I.qbuf->n); }
inline void restore(Inst &I, const Snap &s) { vfTick(); I.ctx = s.ctx; memcpy(I.qbuf->p, s.q.data(), s.q.size()); }

static const int kEv3[] = {0x20, 0x40, 0x200};            // representative bits of ESR/ESE (incl. bit 6 and a bit above 8)
static const int kGrp3[] = {0x01, 0x40, 0x200};           // OPER/QUES groups
static const int kSreVals[] = {0, 0x04, 0x08, 0x20, 0x40, 0x80, 0xA8, 0xFF};
static const int kPushCodes[] = {-100, -200, -310, -410, -500, -600, -700, -800, 5, -90};

inline int combo(const int *bits, int mask) { int v = 0; for (int i = 0; i < 3; i++) if (mask & (1 << i)) v |= bits[i]; return v; }

// operation alphabet for a scope (bit mask: 1 = ESR group, 2 = OPER group, 4 = QUES group).
// level: 0 = two values per register {none, all three bits}, 1 = four values, 2 = all eight combinations;
// npush = number of distinct error codes (each class bit multiplies the ESR value space).
inline std::vector<Op> alphabet(int scope, int level, int npush) {
    std::vector<Op> v;
    auto add = [&](int kind, int reg, int val, int cmd = 0) { Op o; o.kind = kind; o.reg = reg; o.val = val; o.cmd = cmd; v.push_back(o); };
    static const int m2[] = {0, 7}, m4[] = {0, 1, 6, 7}, m8[] = {0, 1, 2, 3, 4, 5, 6, 7};
    const int *ms = level == 0 ? m2 : level == 1 ? m4 : m8;
    int nmask = level == 0 ? 2 : level == 1 ? 4 : 8;
    static const int pushOrder[] = {-100, 5, -200, -90, -310, -410, -500, -600, -700, -800};
    if (scope & 1) {
        for (int m = 0; m < nmask; m++) { add(OP_SET, SCPI_REG_ESR, combo(kEv3, ms[m])); add(OP_SET, SCPI_REG_ESE, combo(kEv3, ms[m])); }
        if (level > 0) { add(OP_SETBITS, SCPI_REG_ESR, 0x20); add(OP_CLRBITS, SCPI_REG_ESR, 0x20); }
        add(OP_CMD, 0, 0, CM_ESRQ); add(OP_CMD, 0, 0x260, CM_ESE); add(OP_CMD, 0, 0, CM_ESE);
        if (level > 0) add(OP_CMD, 0, 0x20, CM_ESE);
    }
    if (scope & 2) {
        for (int m = 0; m < nmask; m++) { add(OP_SET, SCPI_REG_OPER, combo(kGrp3, ms[m])); add(OP_SET, SCPI_REG_OPERE, combo(kGrp3, ms[m])); add(OP_SET, SCPI_REG_OPERC, combo(kGrp3, ms[m])); }
        if (level > 0) { add(OP_SETBITS, SCPI_REG_OPERC, 0x40); add(OP_CLRBITS, SCPI_REG_OPERC, 0x40); }
        add(OP_CMD, 0, 0, CM_OPERQ); add(OP_CMD, 0, 0x241, CM_OPERENA); add(OP_CMD, 0, 0, CM_OPERENA);
    }
    if (scope & 4) {
        for (int m = 0; m < nmask; m++) { add(OP_SET, SCPI_REG_QUES, combo(kGrp3, ms[m])); add(OP_SET, SCPI_REG_QUESE, combo(kGrp3, ms[m])); add(OP_SET, SCPI_REG_QUESC, combo(kGrp3, ms[m])); }
        if (level > 0) { add(OP_SETBITS, SCPI_REG_QUESC, 0x200); add(OP_CLRBITS, SCPI_REG_QUESC, 0x200); }
        add(OP_CMD, 0, 0, CM_QUESQ); add(OP_CMD, 0, 0x241, CM_QUESENA); add(OP_CMD, 0, 0, CM_QUESENA); add(OP_CMD, 0, 0, CM_PRES);
    }
    int nsre = level == 0 ? 4 : 8;
    static const int sreOrder[] = {0, 0xFF, 0x40, 0xA8, 0x04, 0x08, 0x20, 0x80};
    for (int i = 0; i < nsre; i++) add(OP_SET, SCPI_REG_SRE, sreOrder[i]);
    add(OP_CMD, 0, 0xA8, CM_SRE); add(OP_CMD, 0, 0, CM_SRE);
    for (int i = 0; i < npush && i < 10; i++) add(OP_PUSH, 0, pushOrder[i]);
    add(OP_POP, 0, 0); add(OP_CLEAR, 0, 0);
    add(OP_CMD, 0, 0, CM_CLS); add(OP_CMD, 0, 0, CM_STBQ); add(OP_CMD, 0, 0, CM_ERRQ);
    return v;
}

struct ExploreStats { uint64_t states = 0, transitions = 0, nontrivial = 0; };

// history predicate used by both properties' non-trivial rules
struct Hist {
    int lastEventChange[3] = {-1, -1, -1};   // step index of the last change of ESR / OPER / QUES
    bool enableAfterEvent = false;
    int mssRises = 0;
    void step(int idx, const Regs &a, const Op &o, const Regs &b) {
        static const int evr[3] = {SCPI_REG_ESR, SCPI_REG_OPER, SCPI_REG_QUES}, enr[3] = {SCPI_REG_ESE, SCPI_REG_OPERE, SCPI_REG_QUESE};
        for (int g = 0; g < 3; g++) {
            if (a.r[evr[g]] != b.r[evr[g]]) lastEventChange[g] = idx;
            if (a.r[enr[g]] != b.r[enr[g]] && lastEventChange[g] >= 0 && lastEventChange[g] < idx && b.r[evr[g]] != 0) enableAfterEvent = true;
        }
        if (!(a.r[SCPI_REG_STB] & 0x40) && (b.r[SCPI_REG_STB] & 0x40)) mssRises++;
        (void) o;
    }
};
inline bool summaryAndEnable(const Regs &x) {
    return (x.r[SCPI_REG_STB] & 0xA8) != 0 && (x.r[SCPI_REG_ESE] || x.r[SCPI_REG_OPERE] || x.r[SCPI_REG_QUESE]);
}

inline uint64_t stateKey(const Regs &x) { uint64_t h = 1469598103934665603ULL; for (int i = 0; i < SCPI_REG_COUNT; i++) h = splitmix(h ^ (uint64_t) x.r[i]); return splitmix(h ^ (uint64_t) x.count); }

// BFS closure.  Returns "" or the failure message; failing path (shortest) is written to *path.
inline std::string closure(int scope, int level, int npush, int queueLen, StepCheck chk, ExploreStats &st, std::vector<Op> *path, Ev &ev, uint64_t maxStates) {
    InstCfg k = statusCfg(queueLen);
    Inst I(k);
    std::vector<Op> ops = alphabet(scope, level, npush);
    struct Node { Snap snap; Regs regs; int parent; int viaOp; };
    std::vector<Node> nodes;
    std::unordered_set<uint64_t> seen;
    Node n0; save(I, n0.snap); n0.regs = readRegs(I); n0.parent = -1; n0.viaOp = -1;
    nodes.push_back(n0); seen.insert(stateKey(n0.regs));
    for (size_t cur = 0; cur < nodes.size(); cur++) {
        for (size_t oi = 0; oi < ops.size(); oi++) {
            restore(I, nodes[cur].snap);
            Regs a = nodes[cur].regs;
            applyOp(I, ops[oi]);
            Regs b = readRegs(I);
            st.transitions++;
            std::string m = chk(a, ops[oi], b, I);
            if (m.empty() && !I.invariant.empty()) m = I.invariant;
            if (!m.empty()) {
                if (path) { std::vector<Op> rev; rev.push_back(ops[oi]); for (int p = (int) cur; nodes[(size_t) p].parent >= 0; p = nodes[(size_t) p].parent) rev.push_back(ops[(size_t) nodes[(size_t) p].viaOp]); path->assign(rev.rbegin(), rev.rend()); }
                return m + " after " + opText(ops[oi]) + " from state [" + regsText(a) + "] -> [" + regsText(b) + "]";
            }
            uint64_t key = stateKey(b);
            if (seen.insert(key).second) {
                if (nodes.size() >= maxStates) { ev.info["closure-truncated"] = "state bound reached: closure not complete"; continue; }
                Node nn; save(I, nn.snap); nn.regs = b; nn.parent = (int) cur; nn.viaOp = (int) oi;
                nodes.push_back(nn);
                if (summaryAndEnable(b)) st.nontrivial++;
            }
        }
    }
    st.states += nodes.size();
    return "";
}

// all sequences up to `depth` over the alphabet of the full scope (DFS with snapshots); partitioned by first op
inline std::string sequences(int depth, int level, int npush, StepCheck chk, ExploreStats &st, std::vector<Op> *path, int worker, int workers, bool (*ntPred)(const Hist &), Ev &ev) {
    InstCfg k = statusCfg(2);
    Inst I(k);
    std::vector<Op> ops = alphabet(7, level, npush);
    std::vector<Snap> snaps((size_t) depth + 1);
    std::vector<Regs> regs((size_t) depth + 1);
    std::vector<Hist> hist((size_t) depth + 1);
    std::vector<size_t> idx((size_t) depth + 1, 0);
    std::vector<Op> cur;
    save(I, snaps[0]); regs[0] = readRegs(I);
    std::string fail;
    std::function<bool(int)> rec = [&](int d) -> bool {
        for (size_t oi = 0; oi < ops.size(); oi++) {
            if (d == 0 && (int) (oi % (size_t) workers) != worker) continue;
            restore(I, snaps[(size_t) d]);
            applyOp(I, ops[oi]);
            Regs b = readRegs(I);
            st.transitions++;
            cur.push_back(ops[oi]);
            std::string m = chk(regs[(size_t) d], ops[oi], b, I);
            if (m.empty() && !I.invariant.empty()) m = I.invariant;
            if (!m.empty()) { fail = m + " after [" + opsText(cur) + "] state [" + regsText(b) + "]"; if (path) *path = cur; return false; }
            hist[(size_t) d + 1] = hist[(size_t) d];
            hist[(size_t) d + 1].step(d, regs[(size_t) d], ops[oi], b);
            st.states++;   // sequences visited
            if (ntPred(hist[(size_t) d + 1]) && summaryAndEnable(b)) { st.nontrivial++; if (ev.wantSample()) ev.sample("sequence: " + opsText(cur) + " -> " + regsText(b)); }
            if (d + 1 < depth) { save(I, snaps[(size_t) d + 1]); regs[(size_t) d + 1] = b; if (!rec(d + 1)) return false; }
            cur.pop_back();
        }
        return true;
    };
    rec(0);
    return fail;
}

// random walk decoded from a choice sequence: full 16-bit values
inline std::vector<Op> decodeWalk(Src &s, int maxOps) {
    std::vector<Op> v;
    int n = (int) s.range(1, (uint64_t) maxOps);
    static const int regsW[] = {SCPI_REG_ESR, SCPI_REG_ESE, SCPI_REG_OPER, SCPI_REG_OPERE, SCPI_REG_OPERC, SCPI_REG_QUES, SCPI_REG_QUESE, SCPI_REG_QUESC, SCPI_REG_SRE};
    for (int i = 0; i < n; i++) {
        Op o;
        switch (s.weighted({6, 3, 3, 3, 2, 1, 6})) {
            case 0: o.kind = OP_SET; break;
            case 1: o.kind = OP_SETBITS; break;
            case 2: o.kind = OP_CLRBITS; break;
            case 3: o.kind = OP_PUSH; break;
            case 4: o.kind = OP_POP; break;
            case 5: o.kind = OP_CLEAR; break;
            default: o.kind = OP_CMD; break;
        }
        if (o.kind <= OP_CLRBITS) {
            o.reg = regsW[s.range(0, 8)];
            switch (s.weighted({3, 3, 1})) { case 0: o.val = (int) s.range(0, 0xffff); break; case 1: o.val = 1 << s.range(0, 15); break; default: o.val = s.coin() ? 0 : 0xffff; }
        } else if (o.kind == OP_PUSH) {
            o.val = s.prob(1, 2) ? kPushCodes[s.range(0, 9)] : s.irange(-32768, 32767);
        } else if (o.kind == OP_CMD) {
            o.cmd = (int) s.range(0, CM_N - 1);
            o.val = s.coin() ? (int) s.range(0, 0xffff) : (1 << s.range(0, 15));
        }
        v.push_back(o);
    }
    return v;
}
// mode: 0 plain; 1 the control callback returns SCPI_RES_ERR; 2..4 the control callback re-enters the library when a service
// request is announced (fixture.hpp controlAction 1..3) - only for checks that are invariants of the state (C11)
inline std::string runWalk(const std::vector<Op> &ops, int queueLen, StepCheck chk, Hist *h = nullptr, int mode = 0) {
    InstCfg k = statusCfg(queueLen);
    if (mode == 1) k.controlReturns = 1; else if (mode >= 2 && mode <= 5) k.controlAction = mode - 1; else if (mode == 6) k.errorCallbackConsumes = true;
    Inst I(k);
    Regs a = readRegs(I);
    std::vector<Op> done;
    for (size_t i = 0; i < ops.size(); i++) {
        applyOp(I, ops[i]);
        Regs b = readRegs(I);
        done.push_back(ops[i]);
        std::string m = chk(a, ops[i], b, I);
        if (m.empty() && !I.invariant.empty()) m = I.invariant;
        if (!m.empty()) return m + fmt(" at step %zu of [", i) + opsText(done) + "] state [" + regsText(b) + "]" + (mode == 1 ? " (control callback returns SCPI_RES_ERR)" : mode == 6 ? " (error callback pops the error it is told about)" : mode >= 2 ? fmt(" (control callback re-enters the library: action %d)", mode - 1) : "");
        if (h) h->step((int) i, a, ops[i], b);
        a = b;
    }
    return "";
}

} // namespace vf
